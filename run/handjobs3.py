#!/usr/bin/env python3
"""ACF-VSS codec obligations (C07 encode, C08 decode): path functions and, per datatype
code, Avtp_Vss_SetVssData / Avtp_Vss_GetVssData against the reference encoding of
examples/acf-vss/protocol_description/acf-vss.md.

Per-datatype specialisation: a symbolic datatype makes symbolic execution explore all 24
switch arms (each needing its own loop contract); instead every code K gets its own run
in which the call to Avtp_Vss_GetDatatype is replaced by the contract instance
   requires header datatype == K   ensures result == K
which is itself enforced on the real getter (obligation Avtp_Vss_GetDatatype/at-K)."""
import os

from vplib import Job, VERIF, scan_tags
from handjobs2 import hand_tu, GHOSTS, HAVOC_GHOSTS

VSS_SRC = 'src/avtp/acf/custom/Vss.c'

# code: (enum label, union member, C element type, element width in bytes, kind)
SCALARS = {
    0x00: ('VSS_UINT8', 'data_uint8', 'uint8_t', 1, 'u'),
    0x01: ('VSS_INT8', 'data_int8', 'int8_t', 1, 'i'),
    0x02: ('VSS_UINT16', 'data_uint16', 'uint16_t', 2, 'u'),
    0x03: ('VSS_INT16', 'data_int16', 'int16_t', 2, 'i'),
    0x04: ('VSS_UINT32', 'data_uint32', 'uint32_t', 4, 'u'),
    0x05: ('VSS_INT32', 'data_int32', 'int32_t', 4, 'i'),
    0x06: ('VSS_UINT64', 'data_uint64', 'uint64_t', 8, 'u'),
    0x07: ('VSS_INT64', 'data_int64', 'int64_t', 8, 'i'),
    0x08: ('VSS_BOOL', 'data_bool', 'uint8_t', 1, 'u'),
    0x09: ('VSS_FLOAT', 'data_float', 'float', 4, 'f'),
    0x0A: ('VSS_DOUBLE', 'data_double', 'double', 8, 'f'),
}
POINTERS = {
    0x0B: ('VSS_STRING', 'data_string', 'char', 1, 'u', 'VssDataString_t'),
    0x80: ('VSS_UINT8_ARRAY', 'data_uint8_array', 'uint8_t', 1, 'u', 'VssDataUint8Array_t'),
    0x81: ('VSS_INT8_ARRAY', 'data_int8_array', 'int8_t', 1, 'i', 'VssDataInt8Array_t'),
    0x82: ('VSS_UINT16_ARRAY', 'data_uint16_array', 'uint16_t', 2, 'u', 'VssDataUint16Array_t'),
    0x83: ('VSS_INT16_ARRAY', 'data_int16_array', 'int16_t', 2, 'i', 'VssDataInt16Array_t'),
    0x84: ('VSS_UINT32_ARRAY', 'data_uint32_array', 'uint32_t', 4, 'u', 'VssDataUint32Array_t'),
    0x85: ('VSS_INT32_ARRAY', 'data_int32_array', 'int32_t', 4, 'i', 'VssDataInt32Array_t'),
    0x86: ('VSS_UINT64_ARRAY', 'data_uint64_array', 'uint64_t', 8, 'u', 'VssDataUint64Array_t'),
    0x87: ('VSS_INT64_ARRAY', 'data_int64_array', 'int64_t', 8, 'i', 'VssDataInt64Array_t'),
    0x88: ('VSS_BOOL_ARRAY', 'data_bool_array', 'uint8_t', 1, 'u', 'VssDataBoolArray_t'),
    0x89: ('VSS_FLOAT_ARRAY', 'data_float_array', 'float', 4, 'f', 'VssDataFloatArray_t'),
    0x8A: ('VSS_DOUBLE_ARRAY', 'data_double_array', 'double', 8, 'f', 'VssDataDoubleArray_t'),
    0x8B: ('VSS_STRING_ARRAY', 'data_string_array', 'uint8_t', 1, 'u', 'VssDataStringArray_t'),
}
RESERVED = [0x0C, 0x7F, 0x8C, 0xFF]

UT = {1: 'uint8_t', 2: 'uint16_t', 4: 'uint32_t', 8: 'uint64_t'}
BT = {1: 'unsigned char', 2: 'unsigned short', 4: 'unsigned int', 8: 'unsigned long long'}


def val_bits(expr, ct, w, kind):
    """the w-byte unsigned bit pattern of a C value (integers: two's complement; floats: IEEE-754)"""
    if kind == 'f':
        return 'vp_f%d_bits(%s)' % (8 * w, expr)
    return '(uint64_t)(%s)(%s)' % (UT[w], expr)


def dt_contract(K):
    return ('Vss_Datatype_t vp_dt_GetDatatype(Avtp_Vss_t* pdu)\n'
            '__CPROVER_requires(__CPROVER_is_fresh(pdu, 12) && vp_get_bits(pdu->header, 24, 8) == 0x%02xu)\n'
            '__CPROVER_assigns()\n'
            '__CPROVER_ensures(__CPROVER_return_value == (Vss_Datatype_t)0x%02x)\n;\n' % (K, K))


COMMON_REQ = ('__CPROVER_requires(vp_plen <= 65533u && vp_dlen <= 65535u && vp_extra <= 8)\n'
              '__CPROVER_requires(VP_VAL_FRESH(val))\n')
HDR_REQ = ('__CPROVER_requires(VP_VSS_MODE_IS(pdu) && (vp_mode != 0u || vp_be16(VP_PB(pdu) + VP_VSS_H) == vp_plen))\n'
           '__CPROVER_requires(vp_get_bits(pdu->header, 24, 8) == 0x%02xu)\n')
DOFF = '(VP_VSS_H + VP_VSS_PSZ)'


def set_contract(K):
    t = []
    tag = lambda what: ' /*TAG C07:%s*/' % what
    sig = 'void Avtp_Vss_SetVssData(Avtp_Vss_t* pdu, VssData_t* val)\n'
    if K in SCALARS:
        lab, mem, ct, w, kind = SCALARS[K]
        t.append(sig + COMMON_REQ)
        t.append('__CPROVER_requires(__CPROVER_is_fresh(pdu, %s + %du + vp_extra))\n' % (DOFF, w))
        t.append(HDR_REQ % K)
        t.append('__CPROVER_assigns(vp_mode <= 1u : __CPROVER_object_upto(VP_PB(pdu) + %s, %du))\n' % (DOFF, w))
        v = val_bits('val->%s' % mem, ct, w, kind)
        for k in range(w):
            t.append('__CPROVER_ensures(vp_mode <= 1u ==> VP_PB(pdu)[%s + %du] == vp_be_byte(%s, %d, %d))%s\n'
                     % (DOFF, k, v, w, k, tag('%s-value-big-endian-right-after-path(byte %d)' % (lab, k))))
        t.append(';\n')
    elif K in POINTERS:
        lab, mem, ct, w, kind, st = POINTERS[K]
        t.append(sig + COMMON_REQ)
        t.append('__CPROVER_requires(__CPROVER_is_fresh(val->%s, sizeof(%s)))\n' % (mem, st))
        t.append('__CPROVER_requires(val->%s->data_length == vp_dlen && vp_dlen %% %du == 0u && __CPROVER_is_fresh(val->%s->data, vp_dlen))\n' % (mem, w, mem))
        t.append('__CPROVER_requires(VP_FB_REQ(%du))\n' % w)
        t.append('__CPROVER_requires(__CPROVER_is_fresh(pdu, %s + 2u + vp_dlen + vp_extra))\n' % DOFF)
        t.append(HDR_REQ % K)
        t.append('__CPROVER_assigns(vp_mode <= 1u : __CPROVER_object_upto(VP_PB(pdu) + %s, 2u + vp_dlen))\n' % DOFF)
        t.append('__CPROVER_ensures(vp_mode <= 1u ==> vp_be16(VP_PB(pdu) + %s) == vp_dlen)%s\n' % (DOFF, tag('%s-16-bit-big-endian-byte-length-prefix' % lab)))
        v = val_bits('val->%s->data[vp_i]' % mem, ct, w, kind)
        for k in range(w):
            t.append('__CPROVER_ensures((vp_mode <= 1u && vp_i < vp_dlen / %du) ==> VP_PB(pdu)[%s + 2u + %du * vp_i + %du] == vp_be_byte(%s, %d, %d))%s\n'
                     % (w, DOFF, w, k, v, w, k, tag('%s-elements-in-order-big-endian(byte %d)' % (lab, k))))
        t.append(';\n')
    else:   # reserved datatype code: nothing is written
        t.append(sig + COMMON_REQ)
        t.append('__CPROVER_requires(__CPROVER_is_fresh(pdu, %s + 8u + vp_extra))\n' % DOFF)
        t.append(HDR_REQ % K)
        t.append('__CPROVER_assigns()\n;\n')
    return ''.join(t)


def get_contract(K):
    t = []
    tag = lambda what: ' /*TAG C08:%s*/' % what
    sig = 'void Avtp_Vss_GetVssData(Avtp_Vss_t* pdu, VssData_t* val)\n'
    if K in SCALARS:
        lab, mem, ct, w, kind = SCALARS[K]
        t.append(sig + COMMON_REQ)
        t.append('__CPROVER_requires(vp_mode <= 1u && __CPROVER_is_fresh(pdu, %s + %du))\n' % (DOFF, w))   # EXACT extent
        t.append(HDR_REQ % K)
        t.append('__CPROVER_assigns(__CPROVER_object_upto((uint8_t *)&val->%s, %du))\n' % (mem, w))
        wire = {1: 'VP_PB(pdu)[%s]' % DOFF, 2: 'vp_be16(VP_PB(pdu) + %s)' % DOFF, 4: 'vp_be32(VP_PB(pdu) + %s)' % DOFF,
                8: 'vp_be64(VP_PB(pdu) + %s)' % DOFF}[w]
        t.append('__CPROVER_ensures(%s == (uint64_t)%s)%s\n' % (val_bits('val->%s' % mem, ct, w, kind), wire, tag('%s-decoded-bit-exact' % lab)))
        t.append(';\n')
    elif K in POINTERS:
        lab, mem, ct, w, kind, st = POINTERS[K]
        t.append(sig + COMMON_REQ)
        t.append('__CPROVER_requires(vp_mode <= 1u && vp_dlen %% %du == 0u)\n' % w)
        t.append('__CPROVER_requires(VP_FB_REQ(%du))\n' % w)
        t.append('__CPROVER_requires(__CPROVER_is_fresh(pdu, %s + 2u + vp_dlen))\n' % DOFF)              # EXACT extent of the message
        t.append(HDR_REQ % K)
        t.append('__CPROVER_requires(vp_be16(VP_PB(pdu) + %s) == vp_dlen)\n' % DOFF)
        t.append('__CPROVER_requires(__CPROVER_is_fresh(val->%s, sizeof(%s)))\n' % (mem, st))
        # phase 1 of the length-query protocol: no destination; phase 2: destination of exactly the reported length
        t.append('__CPROVER_requires(val->%s->data == NULL || __CPROVER_is_fresh(val->%s->data, vp_dlen))\n' % (mem, mem))
        t.append('__CPROVER_assigns(val->%s->data_length; val->%s->data != NULL : __CPROVER_object_upto((uint8_t *)val->%s->data, vp_dlen))\n' % (mem, mem, mem))
        t.append('__CPROVER_ensures(val->%s->data_length == vp_dlen)%s\n' % (mem, tag('%s-length-reported' % lab)))
        t.append('__CPROVER_ensures(val->%s->data == __CPROVER_old(val->%s->data))%s\n' % (mem, mem, tag('%s-destination-pointer-kept' % lab)))
        wire = {1: 'VP_PB(pdu)[%s + 2u + vp_i]' % DOFF, 2: 'vp_be16(VP_PB(pdu) + %s + 2u + 2u * vp_i)' % DOFF,
                4: 'vp_be32(VP_PB(pdu) + %s + 2u + 4u * vp_i)' % DOFF, 8: 'vp_be64(VP_PB(pdu) + %s + 2u + 8u * vp_i)' % DOFF}[w]
        t.append('__CPROVER_ensures((val->%s->data != NULL && vp_i < vp_dlen / %du) ==> %s == (uint64_t)%s)%s\n'
                 % (mem, w, val_bits('val->%s->data[vp_i]' % mem, ct, w, kind), wire, tag('%s-elements-decoded-bit-exact' % lab)))
        t.append(';\n')
    else:
        t.append(sig + COMMON_REQ)
        t.append('__CPROVER_requires(vp_mode <= 1u && __CPROVER_is_fresh(pdu, %s))\n' % DOFF)
        t.append(HDR_REQ % K)
        t.append('__CPROVER_assigns()\n;\n')
    return ''.join(t)


def be_image_inv(dst, idx, src_bits, w):
    """call-free: the w bytes at dst[idx*w ..] are the big-endian image of src_bits"""
    return ' && '.join('%s[%du * %s + %du] == (unsigned char)((%s)(%s) >> %d)' % (dst, w, idx, k, BT[w], src_bits, 8 * (w - 1 - k))
                       for k in range(w))


def set_loop(K):
    lab, mem, ct, w, kind, st = POINTERS[K]
    if w == 1:
        return None
    S = 'val->%s->data' % mem
    N = '(val->%s->data_length / %d)' % (mem, w)
    bits = ('*(%s *)&%s[vp_i]' % (BT[w], S)) if kind == 'f' else ('(%s)%s[vp_i]' % (BT[w], S))
    inv = '0 <= i && i <= %s && (!(vp_i < (unsigned long)i) || (%s))' % (N, be_image_inv('(vss_data_ptr + 2)', 'vp_i', bits, w))
    tmpl = 'INV: %s\nDEC: %s - i\nASG: i, __CPROVER_object_upto(vss_data_ptr + 2, %du * (unsigned long)%s)\n' % (inv, N, w, N)
    return {'Avtp_Vss_SetVssData': [{'template': tmpl, 'symbols': ['i', 'val', 'vss_data_ptr'], 'case_label': lab, 'src': VSS_SRC}]}


def get_loop(K):
    lab, mem, ct, w, kind, st = POINTERS[K]
    if w == 1:
        return None
    D = 'val->%s->data' % mem
    N = '(val->%s->data_length / %d)' % (mem, w)
    bits = ('*(%s *)&%s[vp_i]' % (BT[w], D)) if kind == 'f' else ('(%s)%s[vp_i]' % (BT[w], D))
    inv = '0 <= i && i <= %s && (!(vp_i < (unsigned long)i) || (%s))' % (N, be_image_inv('vss_data_ptr', 'vp_i', bits, w))
    tmpl = 'INV: %s\nDEC: %s - i\nASG: i, __CPROVER_object_upto((unsigned char *)%s, %du * (unsigned long)%s)\n' % (inv, N, D, w, N)
    return {'Avtp_Vss_GetVssData': [{'template': tmpl, 'symbols': ['i', 'val', 'vss_data_ptr'], 'case_label': lab, 'src': VSS_SRC}]}


VSS_GHOSTS = (GHOSTS + 'unsigned vp_mode, vp_plen, vp_dlen;\n'
              '/* the value union: a fresh object; in the big-endian configuration a TYPED object, because CBMC\'s big-endian memory\n'
              ' * model cannot read back a pointer stored into the untyped bytes that is_fresh allocates */\n'
              '#ifdef VP_TYPED_VAL\nVssData_t vp_val_obj;\n#define VP_VAL_FRESH(val) ((val) == &vp_val_obj)\n#else\n#define VP_VAL_FRESH(val) __CPROVER_is_fresh(val, sizeof(VssData_t))\n#endif\n'
              '/* bounded FALLBACK build only (-DVP_FB_ELEMS=n): values of at most n elements */\n'
              '#if defined(VP_FB_ELEMS)\n#define VP_FB_REQ(w) (vp_dlen <= VP_FB_ELEMS * (w) && vp_plen <= 16u)\n#elif defined(VP_FB_TOP)\n#define VP_FB_REQ(w) (vp_dlen + 2u * (w) > 65535u && vp_plen <= 16u)\n#elif defined(VP_SIZE_CAP)\n#define VP_FB_REQ(w) (vp_dlen <= VP_SIZE_CAP && vp_plen <= 64u)\n#else\n#define VP_FB_REQ(w) 1\n#endif\n')
VSS_HAVOC = HAVOC_GHOSTS + '    vp_mode = nondet_uint(); vp_plen = nondet_uint(); vp_dlen = nondet_uint();\n'


def _tu(model, needed, extra_contracts, body):
    import gen_contracts as G
    tu = G.TU()
    tu.add(G.PRELUDE)
    tu.extend(G.format_contracts(model, model['fmts']['vss'], enforced=None, needed=set(needed)))
    tu.add(VSS_GHOSTS)
    tu.add('#include "vss.h"')
    start = len(tu.lines)
    tu.tags = {}          # tags of the (replaced) generated contracts are not obligations of this job
    tu.add(extra_contracts)
    # tags written inline as /*TAG ...*/ in generated contract text
    import re
    for i, l in enumerate(tu.lines[start:], start + 1):
        m = re.search(r'/\*TAG\s+(\S+?)\s*\*/', l)
        if m:
            tu.tags[i] = m.group(1)
    tu.add(body)
    return tu


def vss_jobs(model, tier, config='le'):
    jobs = []
    htags = scan_tags(os.path.join(VERIF, 'contracts', 'vss.h'))
    srcs = [VSS_SRC, 'src/avtp/Utils.c']

    def harness(decl, call):
        return ('void harness(void)\n{\n' + VSS_HAVOC + '    vp_wv = nondet_u64(); vp_wf = nondet_uint(); vp_wx = nondet_uint();\n'
                + decl + '\n    ' + call + '\n    VP_CANARY();\n}\n')

    # ---- path functions
    path = [
        ('Avtp_Vss_CalcVssPathLength/iface', 'Avtp_Vss_CalcVssPathLength', 'C08', 'Avtp_Vss_t *pdu;', 'Avtp_Vss_CalcVssPathLength(pdu);'),
        ('Avtp_Vss_CalcVssPathLength/full-range', 'Avtp_Vss_CalcVssPathLength/vp_full_CalcVssPathLength', 'C08', 'Avtp_Vss_t *pdu;', 'Avtp_Vss_CalcVssPathLength(pdu);'),
        ('Avtp_Vss_SetVssPath/iface', 'Avtp_Vss_SetVssPath', 'C07', 'Avtp_Vss_t *pdu; VssPath_t *val;', 'Avtp_Vss_SetVssPath(pdu, val);'),
        ('Avtp_Vss_GetVssPath/iface', 'Avtp_Vss_GetVssPath', 'C08', 'Avtp_Vss_t *pdu; VssPath_t *val;', 'Avtp_Vss_GetVssPath(pdu, val);'),
    ]
    for name, enf, pid, decl, call in path:
        tu = _tu(model, ['Avtp_Vss_GetAddrMode'], '', harness('    ' + decl, call))
        cm = dict(htags)
        cm.update(tu.tags)
        jobs.append(Job(name, tu.text(), srcs, enforce=enf, replace=['Avtp_Vss_GetAddrMode'],
                        owners={'post': [pid], 'safety': [pid], 'assigns': [pid, 'C16']}, clause_map=cm,
                        function=enf.split('/')[0], kind='vss-path', config=config, timeout=900))
    # ---- per datatype
    if tier == 'quick':
        # every scalar code, the string, one array of each element width and kind (1-byte, 16-bit, 32-bit integer, float), the
        # bool array, the string array and one reserved code; the 8-byte arrays and the remaining signed/unsigned twins are thorough-only
        codes = sorted(SCALARS) + [0x0B, 0x80, 0x82, 0x83, 0x85, 0x88, 0x89, 0x8B, 0x0C]
    else:
        codes = sorted(SCALARS) + sorted(POINTERS) + RESERVED
    for K in codes:
        lab = (SCALARS.get(K) or POINTERS.get(K) or ('RESERVED_0x%02X' % K,))[0]
        # the contract instance used for Avtp_Vss_GetDatatype at this code, enforced on the real getter
        tu = _tu(model, [], dt_contract(K), harness('    Avtp_Vss_t *pdu;', 'Avtp_Vss_GetDatatype(pdu);'))
        jobs.append(Job('Avtp_Vss_GetDatatype/at-0x%02X' % K, tu.text(), srcs, enforce='Avtp_Vss_GetDatatype/vp_dt_GetDatatype',
                        replace=['Avtp_GetField'], owners={'post': ['C07', 'C08'], 'safety': ['C07', 'C08'], 'assigns': ['C07', 'C08']},
                        function='Avtp_Vss_GetDatatype', kind='vss-dt', config=config, timeout=300))
        for side, contract, lc, pid, fn in (('set', set_contract(K), set_loop(K) if K in POINTERS else None, 'C07', 'Avtp_Vss_SetVssData'),
                                            ('get', get_contract(K), get_loop(K) if K in POINTERS else None, 'C08', 'Avtp_Vss_GetVssData')):
            tu = _tu(model, ['Avtp_Vss_GetAddrMode'], dt_contract(K) + contract,
                     harness('    Avtp_Vss_t *pdu; VssData_t *val;', '%s(pdu, val);' % fn))
            cm = dict(htags)
            cm.update(tu.tags)
            assume = ['byte-order helpers are inlined (loop-free) in the VSS codec proofs; their own contracts are proved under C13',
                      'per-datatype specialisation: Avtp_Vss_GetDatatype replaced by its contract instance at the code (itself enforced on the real getter)']
            repl = ['Avtp_Vss_CalcVssPathLength', 'Avtp_Vss_GetDatatype/vp_dt_GetDatatype', 'Avtp_Vss_GetAddrMode']
            fb = None
            if lc and config == 'le':
                # (big-endian configuration: no fallback - CBMC's big-endian model mis-handles the union-held destination pointer once the
                # loop is unwound instead of abstracted by its contract; such a run stays undecided)
                # used only when the loop contract cannot be attached to the loop as it is written now (rewritten loop,
                # renamed counter): same contract, values of at most FB elements, loops closed by unwinding assertions
                FB = 4
                fb = Job('%s/%s~bounded-fallback' % (fn, lab), tu.text(), srcs, enforce=fn, replace=repl,
                         owners={'post': [pid], 'safety': [pid], 'assigns': [pid, 'C16'], 'loop': [pid], 'unwind': [pid]},
                         clause_map=cm, function=fn, kind='vss-' + side + '-fallback', config=config, timeout=1800, obj_bits=10,
                         extra_cc=['-DVP_FB_ELEMS=%du' % FB], unwind={'*repo*': FB + 2}, assumptions=assume,
                         bounded='BOUNDED FALLBACK (loop contract not attachable to the rewritten loop): values of at most %d elements, '
                                 'interop paths of at most 16 bytes, loops unwound %d times with unwinding assertions' % (FB, FB + 2))
                # boundary probe: the longest values the 16-bit length can express, same short unwinding: a loop that (wrongly) runs
                # only a few times there - a wrapped 16-bit bound - produces a real counterexample; a correct loop just hits the bound
                fb.probes = [Job('%s/%s~top-of-range-probe' % (fn, lab), tu.text(), srcs, enforce=fn, replace=repl,
                                 owners={'post': [pid], 'safety': [pid], 'assigns': [pid, 'C16'], 'loop': [pid], 'unwind': [pid]},
                                 clause_map=cm, function=fn, kind='vss-' + side + '-fallback', config=config, timeout=900, obj_bits=10,
                                 extra_cc=['-DVP_FB_TOP'], unwind={'*repo*': 3}, assumptions=assume, canary=False,
                                 bounded='BOUNDARY PROBE of the bounded fallback: the last two element counts below 65536 bytes, loops unwound 3 times')]
            # The 8-byte array ENCODERS do not finish with their loop contract (each of ~50 property chunks takes minutes; an hour was
            # not enough, also with the value size capped at 2048 bytes).  They are registered as BOUNDED obligations instead: values
            # of at most 4 elements with the loops unwound, plus a probe at the top of the 16-bit length range.  Their decoders and all
            # narrower element widths keep the unbounded loop-contract proofs.
            if side == 'set' and K in POINTERS and POINTERS[K][3] == 8:
                FB = 4
                jobs.append(Job('%s/%s' % (fn, lab), tu.text(), srcs, enforce=fn, replace=repl,
                                owners={'post': [pid], 'safety': [pid], 'assigns': [pid, 'C16'], 'loop': [pid], 'unwind': [pid]},
                                clause_map=cm, function=fn, kind='vss-' + side, config=config, timeout=1800, obj_bits=10,
                                extra_cc=['-DVP_FB_ELEMS=%du' % FB] + (['-DVP_TYPED_VAL'] if config == 'be' else []), unwind={'*repo*': FB + 2}, assumptions=assume,
                                bounded='BOUNDED (the loop-contract proof of the 8-byte array encoders does not finish): values of at most %d elements, interop paths of '
                                        'at most 16 bytes, loops unwound %d times with unwinding assertions' % (FB, FB + 2)))
                jobs.append(Job('%s/%s/top-of-range-probe' % (fn, lab), tu.text(), srcs, enforce=fn, replace=repl,
                                owners={'post': [pid], 'safety': [pid], 'assigns': [pid, 'C16'], 'loop': [pid], 'unwind': [pid]},
                                clause_map=cm, function=fn, kind='vss-' + side, config=config, timeout=900, obj_bits=10,
                                extra_cc=['-DVP_FB_TOP'] + (['-DVP_TYPED_VAL'] if config == 'be' else []), unwind={'*repo*': 3}, assumptions=assume, canary=False, ignore_unwind=True,
                                bounded='BOUNDARY PROBE: the last element counts below 65536 bytes with the loops unwound 3 times; only a real failure counts, '
                                        'reaching the unwinding bound gives no information'))
                continue
            jobs.append(Job('%s/%s' % (fn, lab), tu.text(), srcs, enforce=fn, replace=repl,
                            loop_contracts=lc, owners={'post': [pid], 'safety': [pid], 'assigns': [pid, 'C16'], 'loop': [pid]},
                            clause_map=cm, function=fn, kind='vss-' + side, config=config, timeout=2400, obj_bits=10,
                            chunk=(40 if (side == 'set' and K in POINTERS and POINTERS[K][3] > 1) else None), chunk_par=3,
                            assumptions=assume, fallback=fb, extra_cc=(['-DVP_TYPED_VAL'] if config == 'be' else [])))
    return jobs
