/*
 * Hand-written contracts of the ACF-CAN message builders (C06), full and brief variant.
 * Included after the generated contracts of the format (Avtp_Can_SetField etc.).
 *
 * Ghosts: vp_i / vp_j are nondeterministic indices that no contract assigns; an
 * obligation proved for a nondeterministic index is proved for all indices.
 * Lengths: every payload length the 9-bit acf_msg_length field can express.
 */
#ifndef VP_CONTRACTS_CAN_H
#define VP_CONTRACTS_CAN_H

#include "vp_env.h"
#include "vp_spec.h"
#include "avtp/acf/Can.h"
#include "avtp/acf/CanBrief.h"

extern size_t vp_i, vp_j, vp_extra;

#define VP_CAN_H 16u
#define VP_CANB_H 8u
#define VP_PADOF(len) ((4u - ((unsigned)(len) % 4u)) % 4u)
#define VP_CAN_MAXLEN (2044u - VP_CAN_H)    /* 511 quadlets - header */
#define VP_CANB_MAXLEN (2044u - VP_CANB_H)
#define VP_PB(p) ((uint8_t *)(p))

/* header byte k after the builder's field writes, as successive reference writes */
#define VP_CAN_HDR_FIN(old, k, len) \
    vp_put_byte(vp_put_byte((old), (k), 7, 9, (VP_CAN_H + (len) + VP_PADOF(len)) / 4u), (k), 16, 2, VP_PADOF(len))
#define VP_CAN_HDR_ALL(old, k, id, variant, len)                                                  \
    VP_CAN_HDR_FIN(vp_put_byte(vp_put_byte(vp_put_byte((old), (k), 20, 1, (id) > 0x7ffu), (k), 99, 29, (id)), (k), 22, 1, (variant)), k, len)
#define VP_CANB_HDR_FIN(old, k, len) \
    vp_put_byte(vp_put_byte((old), (k), 7, 9, (VP_CANB_H + (len) + VP_PADOF(len)) / 4u), (k), 16, 2, VP_PADOF(len))
#define VP_CANB_HDR_ALL(old, k, id, variant, len)                                                 \
    VP_CANB_HDR_FIN(vp_put_byte(vp_put_byte(vp_put_byte((old), (k), 20, 1, (id) > 0x7ffu), (k), 35, 29, (id)), (k), 22, 1, (variant)), k, len)

#define VP_E16(M) M(0) M(1) M(2) M(3) M(4) M(5) M(6) M(7) M(8) M(9) M(10) M(11) M(12) M(13) M(14) M(15)
#define VP_E8(M) M(0) M(1) M(2) M(3) M(4) M(5) M(6) M(7)

/* ---------------------------------------------------------------- Avtp_Can_SetPayload */
void Avtp_Can_SetPayload(Avtp_Can_t* pdu, uint8_t* payload, uint16_t payload_length)
__CPROVER_requires(VP_WBIND(vp_wx == payload_length))
__CPROVER_requires(payload_length <= VP_CAN_MAXLEN && vp_extra <= 8)
__CPROVER_requires(__CPROVER_is_fresh(pdu, VP_CAN_H + payload_length + vp_extra))
__CPROVER_requires(__CPROVER_is_fresh(payload, payload_length))
__CPROVER_assigns(payload_length != 0 : __CPROVER_object_upto(VP_PB(pdu) + VP_CAN_H, payload_length))
__CPROVER_ensures(vp_i < payload_length ==> VP_PB(pdu)[VP_CAN_H + vp_i] == payload[vp_i]) /*TAG C06:payload-copied-verbatim-after-header*/
;

/* ------------------------------------------------------------------ Avtp_Can_Finalize */
#define VP_M(k) && pdu->header[k] == VP_CAN_HDR_FIN(__CPROVER_old(pdu->header[k]), k, payload_length)
void Avtp_Can_Finalize(Avtp_Can_t* pdu, uint16_t payload_length)
__CPROVER_requires(VP_WBIND(vp_wx == payload_length))
__CPROVER_requires(payload_length <= VP_CAN_MAXLEN && vp_extra <= 8)
__CPROVER_requires(__CPROVER_is_fresh(pdu, VP_CAN_H + payload_length + VP_PADOF(payload_length) + vp_extra))
__CPROVER_assigns(__CPROVER_object_upto(pdu->header, VP_CAN_H);
                  VP_PADOF(payload_length) != 0 : __CPROVER_object_upto(VP_PB(pdu) + VP_CAN_H + payload_length, VP_PADOF(payload_length)))
__CPROVER_ensures(1 VP_E16(VP_M)) /*TAG C06:length-and-pad-fields-set-no-other-header-field-changed*/
__CPROVER_ensures(vp_get_bits(pdu->header, 7, 9) == (VP_CAN_H + payload_length + VP_PADOF(payload_length)) / 4u) /*TAG C06:acf_msg_length-in-quadlets*/
__CPROVER_ensures(vp_get_bits(pdu->header, 16, 2) == VP_PADOF(payload_length)) /*TAG C06:pad-count*/
__CPROVER_ensures(vp_j < VP_PADOF(payload_length) ==> VP_PB(pdu)[VP_CAN_H + payload_length + vp_j] == 0) /*TAG C06:pad-bytes-zero*/
;
#undef VP_M

/* ---------------------------------------------------------- Avtp_Can_CreateAcfMessage */
#define VP_M(k) && pdu->header[k] == VP_CAN_HDR_ALL(__CPROVER_old(pdu->header[k]), k, frame_id, (unsigned)can_variant, payload_length)
void Avtp_Can_CreateAcfMessage(Avtp_Can_t* pdu, uint32_t frame_id, uint8_t* payload,
                               uint16_t payload_length, Avtp_CanVariant_t can_variant)
__CPROVER_requires(VP_WBIND(vp_wx == payload_length && vp_wv == frame_id && vp_wf == (unsigned)can_variant))
__CPROVER_requires(payload_length <= VP_CAN_MAXLEN && vp_extra <= 8 && (unsigned)can_variant <= 1u)
__CPROVER_requires(__CPROVER_is_fresh(pdu, VP_CAN_H + payload_length + VP_PADOF(payload_length) + vp_extra))
__CPROVER_requires(__CPROVER_is_fresh(payload, payload_length))
__CPROVER_assigns(__CPROVER_object_upto(VP_PB(pdu), VP_CAN_H + payload_length + VP_PADOF(payload_length)))
__CPROVER_ensures(1 VP_E16(VP_M)) /*TAG C06:eff-id-fdf-length-pad-set-no-other-header-field-changed*/
__CPROVER_ensures(vp_get_bits(pdu->header, 99, 29) == (frame_id & 0x1fffffffu)) /*TAG C06:identifier*/
__CPROVER_ensures(vp_get_bits(pdu->header, 20, 1) == (frame_id > 0x7ffu)) /*TAG C06:extended-frame-flag*/
__CPROVER_ensures(vp_get_bits(pdu->header, 22, 1) == (unsigned)can_variant) /*TAG C06:fd-flag*/
__CPROVER_ensures(vp_get_bits(pdu->header, 7, 9) == (VP_CAN_H + payload_length + VP_PADOF(payload_length)) / 4u) /*TAG C06:acf_msg_length-in-quadlets*/
__CPROVER_ensures(vp_get_bits(pdu->header, 16, 2) == VP_PADOF(payload_length)) /*TAG C06:pad-count*/
__CPROVER_ensures(vp_i < payload_length ==> VP_PB(pdu)[VP_CAN_H + vp_i] == payload[vp_i]) /*TAG C06:payload-copied-verbatim-after-header*/
__CPROVER_ensures(vp_j < VP_PADOF(payload_length) ==> VP_PB(pdu)[VP_CAN_H + payload_length + vp_j] == 0) /*TAG C06:pad-bytes-zero*/
;
#undef VP_M

/* ---------------------------------------------------------------- Avtp_Can_GetPayload */
uint8_t* Avtp_Can_GetPayload(Avtp_Can_t* pdu)
__CPROVER_requires(__CPROVER_is_fresh(pdu, VP_CAN_H))
__CPROVER_assigns()
__CPROVER_ensures(__CPROVER_return_value == VP_PB(pdu) + VP_CAN_H) /*TAG C03:payload-accessor-returns-address-after-header*/
;

/* ------------------------------------------------------- Avtp_Can_GetCanPayloadLength */
/* On any message whose length/pad fields are what the builder writes for a payload of
 * vp_wx <= 64 bytes, the original length is read back. */
uint8_t Avtp_Can_GetCanPayloadLength(Avtp_Can_t* pdu)
__CPROVER_requires(vp_wx <= 64 && __CPROVER_is_fresh(pdu, VP_CAN_H))
__CPROVER_requires(vp_get_bits(pdu->header, 7, 9) == (VP_CAN_H + vp_wx + VP_PADOF(vp_wx)) / 4u)
__CPROVER_requires(vp_get_bits(pdu->header, 16, 2) == VP_PADOF(vp_wx))
__CPROVER_assigns()
__CPROVER_ensures(__CPROVER_return_value == vp_wx) /*TAG C06:payload-length-read-back*/
;

/* ------------------------------------------------------------- Avtp_CanBrief_Finalize */
#define VP_M(k) && pdu->header[k] == VP_CANB_HDR_FIN(__CPROVER_old(pdu->header[k]), k, payload_length)
int Avtp_CanBrief_Finalize(Avtp_CanBrief_t* pdu, uint16_t payload_length)
__CPROVER_requires(VP_WBIND(vp_wx == payload_length))
__CPROVER_requires(payload_length <= VP_CANB_MAXLEN && vp_extra <= 8)
__CPROVER_requires(__CPROVER_is_fresh(pdu, VP_CANB_H + payload_length + VP_PADOF(payload_length) + vp_extra))
__CPROVER_assigns(__CPROVER_object_upto(pdu->header, VP_CANB_H);
                  VP_PADOF(payload_length) != 0 : __CPROVER_object_upto(VP_PB(pdu) + VP_CANB_H + payload_length, VP_PADOF(payload_length)))
__CPROVER_ensures(1 VP_E8(VP_M)) /*TAG C06:length-and-pad-fields-set-no-other-header-field-changed*/
__CPROVER_ensures(vp_j < VP_PADOF(payload_length) ==> VP_PB(pdu)[VP_CANB_H + payload_length + vp_j] == 0) /*TAG C06:pad-bytes-zero*/
__CPROVER_ensures(__CPROVER_return_value == (int)(VP_CANB_H + payload_length + VP_PADOF(payload_length))) /*TAG C06:brief-builder-returns-padded-byte-length*/
;
#undef VP_M

/* ----------------------------------------------------------- Avtp_CanBrief_SetPayload */
#define VP_M(k) && pdu->header[k] == VP_CANB_HDR_ALL(__CPROVER_old(pdu->header[k]), k, frame_id, (unsigned)can_variant, payload_length)
int Avtp_CanBrief_SetPayload(Avtp_CanBrief_t* pdu, uint32_t frame_id, uint8_t* payload,
                             uint16_t payload_length, Avtp_CanVariant_t can_variant)
__CPROVER_requires(VP_WBIND(vp_wx == payload_length && vp_wv == frame_id && vp_wf == (unsigned)can_variant))
__CPROVER_requires(payload_length <= VP_CANB_MAXLEN && vp_extra <= 8 && (unsigned)can_variant <= 1u)
__CPROVER_requires(__CPROVER_is_fresh(pdu, VP_CANB_H + payload_length + VP_PADOF(payload_length) + vp_extra))
__CPROVER_requires(__CPROVER_is_fresh(payload, payload_length))
__CPROVER_assigns(__CPROVER_object_upto(VP_PB(pdu), VP_CANB_H + payload_length + VP_PADOF(payload_length)))
__CPROVER_ensures(1 VP_E8(VP_M)) /*TAG C06:eff-id-fdf-length-pad-set-no-other-header-field-changed*/
__CPROVER_ensures(vp_get_bits(pdu->header, 35, 29) == (frame_id & 0x1fffffffu)) /*TAG C06:identifier*/
__CPROVER_ensures(vp_get_bits(pdu->header, 20, 1) == (frame_id > 0x7ffu)) /*TAG C06:extended-frame-flag*/
__CPROVER_ensures(vp_get_bits(pdu->header, 22, 1) == (unsigned)can_variant) /*TAG C06:fd-flag*/
__CPROVER_ensures(vp_get_bits(pdu->header, 7, 9) == (VP_CANB_H + payload_length + VP_PADOF(payload_length)) / 4u) /*TAG C06:acf_msg_length-in-quadlets*/
__CPROVER_ensures(vp_get_bits(pdu->header, 16, 2) == VP_PADOF(payload_length)) /*TAG C06:pad-count*/
__CPROVER_ensures(vp_i < payload_length ==> VP_PB(pdu)[VP_CANB_H + vp_i] == payload[vp_i]) /*TAG C06:payload-copied-verbatim-after-header*/
__CPROVER_ensures(vp_j < VP_PADOF(payload_length) ==> VP_PB(pdu)[VP_CANB_H + payload_length + vp_j] == 0) /*TAG C06:pad-bytes-zero*/
__CPROVER_ensures(__CPROVER_return_value == (int)(VP_CANB_H + payload_length + VP_PADOF(payload_length))) /*TAG C06:brief-builder-returns-padded-byte-length*/
;
#undef VP_M

#endif
