#!/usr/bin/env python3
"""wire_spec.json x inventory(/repo/include) -> contracts, harnesses and jobs for every
per-format accessor, initialiser and legacy wrapper.

The mapping from a C function / enumerator to an oracle row is BY NAME only
(Avtp_Can_GetCanBusId <-> can.can_bus_id); the repository's descriptor tables and
enumerator order are never consulted.  Anything that cannot be mapped raises GenError
(driver: exit 2, undecided)."""
import json
import os
import re
import sys

sys.path.insert(0, os.path.dirname(os.path.abspath(__file__)))
sys.path.insert(0, os.path.join(os.path.dirname(os.path.dirname(os.path.abspath(__file__))), 'run'))
import inventory  # noqa: E402
from vplib import Job, VERIF  # noqa: E402


class GenError(Exception):
    pass


SPECIALS = {
    # hand-written contracts (contracts/can.h, contracts/vss.h): name -> owner tag
    'Avtp_Can_CreateAcfMessage', 'Avtp_Can_GetPayload', 'Avtp_Can_SetPayload', 'Avtp_Can_Finalize',
    'Avtp_Can_GetCanPayloadLength', 'Avtp_CanBrief_SetPayload', 'Avtp_CanBrief_Finalize',
    'Avtp_Vss_Pad', 'Avtp_Vss_GetVssPath', 'Avtp_Vss_GetVssData', 'Avtp_Vss_GetVSSDataStringArrayLength',
    'Avtp_Vss_CalcVssPathLength', 'Avtp_Vss_DeserializeStringArray', 'Avtp_Vss_SetVssPath',
    'Avtp_Vss_SetVssData', 'Avtp_Vss_SerializeStringArray',
    'Avtp_GetField', 'Avtp_SetField',
}

EINVAL = 22


def camel_to_snake(s):
    return re.sub(r'(?<!^)([A-Z])', r'_\1', s).lower()


def type_bits(ty, enums):
    ty = ty.strip()
    if ty in inventory.TYPE_BITS:
        return inventory.TYPE_BITS[ty]
    if ty in enums:
        return 32
    raise GenError('unknown scalar type %r' % ty)


class Fmt:
    pass


def load_model(repo='/repo'):
    spec = json.load(open(os.path.join(VERIF, 'spec', 'wire_spec.json')))
    inv = inventory.build(repo)
    all_enums = {}
    for h in inv['headers'].values():
        all_enums.update(h['enums'])
    model = {'spec': spec, 'inv': inv, 'fmts': {}, 'enums': all_enums, 'notes': []}
    for hn, h in inv['headers'].items():
        for u in h.get('unparsed', []):
            model['notes'].append('%s: text the inventory cannot classify as a prototype (macro-generated declarations?): %s' % (hn, u[:100]))
    claimed = set()
    for key, fs in spec['formats'].items():
        f = Fmt()
        f.key, f.spec = key, fs
        if fs['header'] not in inv['headers']:
            raise GenError('header %s of format %s not found' % (fs['header'], key))
        hdr = inv['headers'][fs['header']]
        f.hdr = hdr
        f.H = fs['header_len']
        f.T = fs['type']
        f.P = fs['c_prefix']
        # ---- oracle rows
        rows = {}
        for g in fs['use']:
            for (n, s, w) in spec['groups'][g]:
                if n in rows:
                    raise GenError('%s: duplicate row %s' % (key, n))
                rows[n] = (s, w)
        for (n, s, w) in fs['fields']:
            if n in rows:
                raise GenError('%s: duplicate row %s' % (key, n))
            rows[n] = (s, w)
        f.rows = rows
        f.rsv = [tuple(x) for x in fs.get('rsv', [])]
        # oracle sanity: rows + reserved gaps partition the header
        cover = [0] * (8 * f.H)
        for n, (s, w) in list(rows.items()) + [('rsv%d' % i, r) for i, r in enumerate(f.rsv)]:
            if w <= 0 or s < 0 or s + w > 8 * f.H:
                raise GenError('%s: row %s [%d,+%d) outside the %d-byte header' % (key, n, s, w, f.H))
            for b in range(s, s + w):
                cover[b] += 1
        if any(c != 1 for c in cover):
            bad = [i for i, c in enumerate(cover) if c != 1][:8]
            raise GenError('%s: oracle rows do not partition the header (bits %s)' % (key, bad))
        if f.H % 4:
            raise GenError('%s: oracle header length not a whole number of quadlets' % key)
        # ---- enumerators -> rows (by name)
        enum_t = None
        for tname, items in hdr['enums'].items():
            if any(n == fs['enum_max'] for n, _ in items):
                enum_t = tname
        if enum_t is None:
            raise GenError('%s: field enumeration with %s not found in %s' % (key, fs['enum_max'], fs['header']))
        f.E = enum_t
        f.enum_items = hdr['enums'][enum_t]
        f.enum_rows = {}     # enumerator -> (rowname, s, w)
        f.MAX = fs['enum_max']
        rsv_enum = fs.get('rsv_enum', [])
        nres = 0
        for ename, _ in f.enum_items:
            if ename == f.MAX:
                continue
            if ename in fs.get('zero_width_enum', []):
                f.enum_rows[ename] = ('(none)', 0, 0)
                continue
            if not ename.startswith(fs['enum_prefix']):
                raise GenError('%s: enumerator %s lacks prefix %s' % (key, ename, fs['enum_prefix']))
            short = ename[len(fs['enum_prefix']):]
            low = short.lower()
            if short in fs.get('enum_alias', {}):
                low = fs['enum_alias'][short]
            if low in rows:
                f.enum_rows[ename] = (low,) + rows[low]
            elif re.match(r'^reserved(_\d+)?$', low):
                if nres < len(rsv_enum):
                    ri = rsv_enum[nres]
                else:
                    # a RESERVED enumerator the oracle does not list (newly exposed reserved bits): it designates the next
                    # reserved gap of the wire format, in bit order, that no enumerator designates yet
                    used = set(rsv_enum[:nres]) | set(int(v[0][3:]) for v in f.enum_rows.values() if v[0].startswith('rsv'))
                    free = sorted((i for i in range(len(f.rsv)) if i not in used), key=lambda i: f.rsv[i][0])
                    if not free:
                        model['notes'].append('%s: enumerator %s designates no reserved gap of the wire format: no value obligation (memory-safety obligations only)' % (key, ename))
                        nres += 1
                        continue
                    ri = free[0]
                    model['notes'].append('%s: enumerator %s is not in the oracle; taken to designate reserved gap %d (bits %d..%d)' % (key, ename, ri, f.rsv[ri][0], f.rsv[ri][0] + f.rsv[ri][1] - 1))
                r = f.rsv[ri]
                f.enum_rows[ename] = ('rsv%d' % ri, r[0], r[1])
                nres += 1
            else:
                # a field the oracle (the standard's layout) does not know: nothing can be claimed about its value;
                # the memory-safety obligations of GetField/SetField (all identifiers below MAX) still cover it
                model['notes'].append('%s: enumerator %s has no oracle row: no value obligation (memory-safety obligations only)' % (key, ename))
        # ---- functions
        f.getters, f.setters = [], []
        f.init = f.getfield = f.setfield = None
        f.specials = []
        for p in hdr['protos']:
            n = p['name']
            if not n.startswith(f.P + '_'):
                continue
            claimed.add(n)
            if n in SPECIALS:
                f.specials.append(p)
                continue
            rest = n[len(f.P) + 1:]
            if rest == 'Init':
                f.init = p
            elif rest == 'GetField':
                f.getfield = p
            elif rest == 'SetField':
                f.setfield = p
            else:
                m = re.match(r'^(Get|Set|set)(\w+)$', rest)
                if not m:
                    raise GenError('%s: public function %s cannot be classified' % (key, n))
                fa = fs.get('func_alias', {})
                row = fa.get(m.group(2), camel_to_snake(m.group(2)))
                if row not in rows:
                    model['notes'].append('%s: public function %s maps to no oracle row (%r): not under contract' % (key, n, row))
                    continue
                if m.group(1) == 'Get':
                    if len(p['params']) != 1:
                        raise GenError('%s: getter %s has unexpected parameters' % (key, n))
                    f.getters.append((p, row))
                else:
                    if len(p['params']) != 2:
                        raise GenError('%s: setter %s has unexpected parameters' % (key, n))
                    f.setters.append((p, row))
        if f.getfield is None or f.setfield is None:
            raise GenError('%s: GetField/SetField not found' % key)
        if (fs['init'] is not None) != (f.init is not None):
            raise GenError('%s: initialiser presence disagrees with the oracle' % key)
        # ---- header length macro
        if fs['len_macro'] not in hdr['macros']:
            raise GenError('%s: macro %s not found' % (key, fs['len_macro']))
        f.len_macro_val = inventory.eval_len_macro(hdr['macros'][fs['len_macro']])
        model['fmts'][key] = f
    # legacy functions
    for key, lg in spec['legacy'].items():
        for k in ('get', 'set', 'init'):
            if lg.get(k):
                claimed.add(lg[k])
    # every public prototype must be owned by something
    for hn, h in inv['headers'].items():
        for p in h['protos']:
            if p['inline']:
                continue
            if p['name'] not in claimed and p['name'] not in SPECIALS:
                model['notes'].append('public function %s (%s) has no oracle row / contract: not under contract' % (p['name'], hn))
    return model


# ---------------------------------------------------------------------------------------
class TU:
    """Translation-unit text with a tag per line (for mapping failed clauses to properties)."""

    def __init__(self):
        self.lines = []
        self.tags = {}
        self.owner = {}       # line -> name of the contract the clause belongs to
        self.cur = None

    def add(self, text, tag=None):
        m = re.match(r'^[\w\s\*]+?\b(\w+)\(', text)
        if m and not text.startswith('__CPROVER') and not text.startswith(' ') and not text.startswith('#') and '{' not in text:
            self.cur = m.group(1)
        for l in text.split('\n'):
            self.lines.append(l)
            if tag:
                self.tags[len(self.lines)] = tag
                self.owner[len(self.lines)] = self.cur

    def extend(self, other):
        off = len(self.lines)
        self.lines.extend(other.lines)
        for k, v in other.tags.items():
            self.tags[k + off] = v
        for k, v in other.owner.items():
            self.owner[k + off] = v

    def tags_of(self, contract):
        return {k: v for k, v in self.tags.items() if self.owner.get(k) == contract}

    def text(self):
        return '\n'.join(self.lines) + '\n'


def bind_hdr(H):
    return ' && '.join('pdu->header[%d] == vp_w[%d]' % (k, k) for k in range(H))


def put_clauses(tu, H, s, n, valexpr, tag, guard=None):
    g = ('(%s) ==> ' % guard) if guard else ''
    for k in range(H):
        tu.add('__CPROVER_ensures(%spdu->header[%d] == vp_put_byte(__CPROVER_old(pdu->header[%d]), %d, %d, %d, (uint64_t)(%s)))'
               % (g, k, k, k, s, n, valexpr), tag)


def canon_image(f):
    img = [0] * f.H
    for name, v in (f.spec['init'] or {}).items():
        s, w = f.rows[name]
        for j in range(w):
            bit = (v >> (w - 1 - j)) & 1
            b = s + j
            if bit:
                img[b // 8] |= 0x80 >> (b % 8)
    return img


def format_contracts(model, f, enforced=None, needed=None):
    """All contracts of one format as a TU fragment.  Witness bindings (vp_w*) are emitted only
    for the contract being enforced: in replace mode a requires clause is an assertion."""
    tu = TU()
    def B(name, txt):
        return txt if name == enforced else '1'
    def want(*names):
        return needed is None or any(n in needed for n in names)
    shared = set()
    for grp in model['spec'].get('shared_views', []):
        if f.key in grp['formats']:
            ren = grp.get('rename', {}).get(f.key, {})
            shared.update(ren.get(x, x) for x in grp['fields'])
    def own(base, row):
        o = [base]
        if f.key == 'vss' and row == 'acf_msg_length':
            o.append('C09')
        if row in shared:
            o.append('C17')
        return '+'.join(o)
    tu.add('/* ---- generated contracts: format %s (%s), oracle header length %d ---- */' % (f.key, f.P, f.H))
    tu.add('#include "%s"' % f.spec['header'])
    H, T, E = f.H, f.T, f.E
    for (p, row) in f.getters:
        s, n = f.rows[row]
        if not want(p['name']):
            continue
        tu.add('%s %s(%s* pdu)' % (p['ret'], p['name'], T))
        tu.add('__CPROVER_requires(pdu == NULL || (__CPROVER_is_fresh(pdu, %d) && %s))' % (H, B(p['name'], bind_hdr(H))))
        tu.add('__CPROVER_assigns()')
        tu.add('__CPROVER_ensures(pdu == NULL ==> (uint64_t)__CPROVER_return_value == 0)', 'C11:null-read-returns-0')
        tu.add('__CPROVER_ensures(pdu != NULL ==> (uint64_t)__CPROVER_return_value == vp_get_bits(pdu->header, %d, %d))' % (s, n),
               '%s:getter-value(%s=%d/%d)' % (own('C01', row), row, s, n))
        tu.add(';')
    # GetField
    p = f.getfield
    if want(p['name']):
      tu.add('%s %s(%s* pdu, %s field)' % (p['ret'], p['name'], T, E))
      tu.add('__CPROVER_requires(%s && (pdu == NULL || (__CPROVER_is_fresh(pdu, %d) && %s)))' % (B(p['name'], 'vp_wf == (unsigned)field'), H, B(p['name'], bind_hdr(H))))
      tu.add('__CPROVER_assigns()')
      tu.add('__CPROVER_ensures(pdu == NULL ==> __CPROVER_return_value == 0)', 'C11:null-read-returns-0')
      tu.add('__CPROVER_ensures((unsigned)field >= (unsigned)%s ==> __CPROVER_return_value == 0)' % f.MAX, 'C11:id-out-of-range-reads-0')
      for ename, (row, s, n) in f.enum_rows.items():
          tu.add('__CPROVER_ensures((pdu != NULL && field == %s) ==> __CPROVER_return_value == vp_get_bits(pdu->header, %d, %d))'
                 % (ename, s, n), 'C01:getfield-value(%s=%s %d/%d)' % (ename, row, s, n))
      tu.add(';')
    # setters
    for (p, row) in f.setters:
        s, n = f.rows[row]
        vt = p['params'][1]['type']
        if not want(p['name'], 'vp_null_' + p['name'], 'vp_fit_' + p['name']):
            continue
        tu.add('void %s(%s* pdu, %s value)' % (p['name'], T, vt))
        tu.add('__CPROVER_requires(%s && __CPROVER_is_fresh(pdu, %d) && %s)' % (B(p['name'], 'vp_wv == (uint64_t)value'), H, B(p['name'], bind_hdr(H))))
        tu.add('__CPROVER_assigns(__CPROVER_object_upto(pdu->header, %d))' % H)
        put_clauses(tu, H, s, n, 'value', '%s:setter-bytes(%s=%d/%d)' % (own('C02+C05', row).replace('+C09', ''), row, s, n))
        tu.add(';')
        tu.add('void vp_null_%s(%s* pdu, %s value)' % (p['name'], T, vt))
        tu.add('__CPROVER_requires(pdu == NULL)')
        tu.add('__CPROVER_assigns()')
        tu.add(';')
        # "every value that fits the field can be stored through its dedicated setter"
        tu.add('void vp_fit_%s(%s* pdu, uint64_t v)' % (p['name'], T))
        tu.add('__CPROVER_requires(%s && v <= VP_MASK64(%d) && __CPROVER_is_fresh(pdu, %d) && %s)' % (B('vp_fit_' + p['name'], 'vp_wv == v'), n, H, B('vp_fit_' + p['name'], bind_hdr(H))))
        tu.add('__CPROVER_assigns(__CPROVER_object_upto(pdu->header, %d))' % H)
        tu.add('__CPROVER_ensures(vp_get_bits(pdu->header, %d, %d) == v)' % (s, n), '%s:setter-carries-every-fitting-value(%s)' % (own('C02', row), row))
        tu.add(';')
    # SetField
    p = f.setfield
    if want(p['name'], 'vp_inactive_' + p['name']):
      tu.add('void %s(%s* pdu, %s field, uint64_t value)' % (p['name'], T, E))
      tu.add('__CPROVER_requires(%s && (unsigned)field < (unsigned)%s && __CPROVER_is_fresh(pdu, %d) && %s)'
             % (B(p['name'], 'vp_wf == (unsigned)field && vp_wv == value'), f.MAX, H, B(p['name'], bind_hdr(H))))
      tu.add('__CPROVER_assigns(__CPROVER_object_upto(pdu->header, %d))' % H)
      for ename, (row, s, n) in f.enum_rows.items():
          put_clauses(tu, H, s, n, 'value', 'C02+C05:setfield-bytes(%s=%s %d/%d)' % (ename, row, s, n), guard='field == %s' % ename)
      tu.add(';')
      tu.add('void vp_inactive_%s(%s* pdu, %s field, uint64_t value)' % (p['name'], T, E))
      tu.add('__CPROVER_requires(%s && (pdu == NULL || __CPROVER_is_fresh(pdu, %d)) && (pdu == NULL || (unsigned)field >= (unsigned)%s))' % (B('vp_inactive_' + p['name'], 'vp_wf == (unsigned)field'), H, f.MAX))
      tu.add('__CPROVER_assigns()')
      tu.add(';')
    # Init
    if f.init is not None and want(f.init['name'], 'vp_null_' + f.init['name']):
        img = canon_image(f)
        p = f.init
        tu.add('void %s(%s* pdu)' % (p['name'], T))
        tu.add('__CPROVER_requires(vp_wx <= 8 && __CPROVER_is_fresh(pdu, %d + vp_wx) && %s)' % (H, B(p['name'], bind_hdr(H))))
        tu.add('__CPROVER_assigns(__CPROVER_object_upto(pdu->header, %d))' % H)
        for k in range(H):
            tu.add('__CPROVER_ensures(pdu->header[%d] == 0x%02x)' % (k, img[k]), 'C04+C05:canonical-byte-%d=0x%02x' % (k, img[k]))
        tu.add(';')
        tu.add('void vp_null_%s(%s* pdu)' % (p['name'], T))
        tu.add('__CPROVER_requires(pdu == NULL)')
        tu.add('__CPROVER_assigns()')
        tu.add(';')
    return tu


def legacy_contracts(model, f, lg, enforced=None):
    """Contracts of the deprecated avtp_*_pdu_{get,set,init} wrappers (C12 / C11)."""
    tu = TU()
    def B(name, txt):
        return txt if name == enforced else '1'
    H = f.H
    inv = model['inv']
    protos = {p['name']: p for p in f.hdr['protos']}
    vt = 'uint%d_t' % lg['val_bits']
    # alias macros -> rows
    alias = dict(lg.get('aliases', {}))
    for a in alias:
        if a not in f.hdr['macros']:
            raise GenError('legacy alias %s not defined in %s' % (a, f.spec['header']))
    pg = protos.get(lg['get'])
    ps = protos.get(lg['set'])
    if pg is None or ps is None:
        raise GenError('legacy functions of %s not found' % f.key)
    pdu_t = pg['params'][0]['type']
    fld_t = pg['params'][1]['type']
    hb = '((const uint8_t*)pdu)'
    bind = ' && '.join('%s[%d] == vp_w[%d]' % (hb, k, k) for k in range(H))
    # ---- get, valid
    tu.add('int %s(%s pdu, %s field, %s* val)' % (lg['get'], pdu_t, fld_t, vt))
    tu.add('__CPROVER_requires(%s && (unsigned)field < (unsigned)%s && __CPROVER_is_fresh(pdu, %d) && __CPROVER_is_fresh(val, sizeof(%s)) && %s)' % (B(lg['get'], 'vp_wf == (unsigned)field'), f.MAX, H, vt, B(lg['get'], bind)))
    tu.add('__CPROVER_assigns(*val)')
    tu.add('__CPROVER_ensures(__CPROVER_return_value == 0)', 'C12:legacy-get-returns-0')
    for ename, (row, s, n) in f.enum_rows.items():
        tu.add('__CPROVER_ensures(field == %s ==> (uint64_t)*val == vp_get_bits(%s, %d, %d))' % (ename, hb, s, n),
               'C12:legacy-get-value(%s=%s)' % (ename, row))
    for a, row in alias.items():
        s, n = f.rows[row]
        tu.add('__CPROVER_ensures(field == %s ==> (uint64_t)*val == vp_get_bits(%s, %d, %d))' % (a, hb, s, n),
               'C12:legacy-alias-designates(%s=%s)' % (a, row))
    tu.add(';')
    # ---- get, invalid
    tu.add('int vp_inval_%s(%s pdu, %s field, %s* val)' % (lg['get'], pdu_t, fld_t, vt))
    tu.add('__CPROVER_requires(%s && (pdu == NULL || __CPROVER_is_fresh(pdu, %d)) && (val == NULL || __CPROVER_is_fresh(val, sizeof(%s))) && (pdu == NULL || val == NULL || (unsigned)field >= (unsigned)%s) && VP_ENUM_ID_OK(field))' % (B('vp_inval_' + lg['get'], 'vp_wf == (unsigned)field'), H, vt, f.MAX))
    tu.add('__CPROVER_assigns()')
    tu.add('__CPROVER_ensures(__CPROVER_return_value == -%d)' % EINVAL, 'C11:legacy-get-EINVAL')
    tu.add(';')
    # ---- set, valid
    pdu_ts = ps['params'][0]['type']
    hbs = '((uint8_t*)pdu)'
    binds = ' && '.join('%s[%d] == vp_w[%d]' % (hbs, k, k) for k in range(H))
    tu.add('int %s(%s pdu, %s field, %s val)' % (lg['set'], pdu_ts, fld_t, vt))
    tu.add('__CPROVER_requires(%s && (unsigned)field < (unsigned)%s && __CPROVER_is_fresh(pdu, %d) && %s)' % (B(lg['set'], 'vp_wf == (unsigned)field && vp_wv == (uint64_t)val'), f.MAX, H, B(lg['set'], binds)))
    tu.add('__CPROVER_assigns(__CPROVER_object_upto(%s, %d))' % (hbs, H))
    tu.add('__CPROVER_ensures(__CPROVER_return_value == 0)', 'C12:legacy-set-returns-0')
    for ename, (row, s, n) in list(f.enum_rows.items()) + [(a, (r,) + f.rows[r]) for a, r in alias.items()]:
        for k in range(H):
            tu.add('__CPROVER_ensures(field == %s ==> %s[%d] == vp_put_byte(__CPROVER_old(%s[%d]), %d, %d, %d, (uint64_t)val))'
                   % (ename, hbs, k, hbs, k, k, s, n), 'C12:legacy-set-bytes(%s=%s)' % (ename, row))
    tu.add(';')
    tu.add('int vp_inval_%s(%s pdu, %s field, %s val)' % (lg['set'], pdu_ts, fld_t, vt))
    tu.add('__CPROVER_requires(%s && (pdu == NULL || __CPROVER_is_fresh(pdu, %d)) && (pdu == NULL || (unsigned)field >= (unsigned)%s) && VP_ENUM_ID_OK(field))' % (B('vp_inval_' + lg['set'], 'vp_wf == (unsigned)field'), H, f.MAX))
    tu.add('__CPROVER_assigns()')
    tu.add('__CPROVER_ensures(__CPROVER_return_value == -%d)' % EINVAL, 'C11:legacy-set-EINVAL')
    tu.add(';')
    # ---- init
    if lg.get('init'):
        pi = protos.get(lg['init'])
        if pi is None:
            raise GenError('legacy init %s not found' % lg['init'])
        extra = lg.get('init_extra')
        img = canon_image(f)
        sig = '%s pdu' % pi['params'][0]['type'] + (', %s %s' % (pi['params'][1]['type'], extra) if extra else '')
        tu.add('int %s(%s)' % (lg['init'], sig))
        tu.add('__CPROVER_requires(vp_wx <= 8 && __CPROVER_is_fresh(pdu, %d + vp_wx) && %s%s)' % (H, B(lg['init'], binds), (' && ' + B(lg['init'], 'vp_wv == (uint64_t)%s' % extra)) if extra else ''))
        tu.add('__CPROVER_assigns(__CPROVER_object_upto(%s, %d))' % (hbs, H))
        tu.add('__CPROVER_ensures(__CPROVER_return_value == 0)', 'C12:legacy-init-returns-0')
        for k in range(H):
            if extra:
                s, n = f.rows[extra]
                tu.add('__CPROVER_ensures(%s[%d] == vp_put_byte(0x%02x, %d, %d, %d, (uint64_t)%s))' % (hbs, k, img[k], k, s, n, extra),
                       'C04+C05+C12:legacy-canonical-byte-%d' % k)
            else:
                tu.add('__CPROVER_ensures(%s[%d] == 0x%02x)' % (hbs, k, img[k]), 'C04+C05+C12:legacy-canonical-byte-%d=0x%02x' % (k, img[k]))
        tu.add(';')
        tu.add('int vp_inval_%s(%s)' % (lg['init'], sig))
        tu.add('__CPROVER_requires(pdu == NULL)')
        tu.add('__CPROVER_assigns()')
        tu.add('__CPROVER_ensures(__CPROVER_return_value == -%d)' % EINVAL, 'C11:legacy-init-EINVAL')
        tu.add(';')
    return tu


PRELUDE = '''#include <stdlib.h>
#include "vp_env.h"
#include "utils.h"
'''


def havoc_witness(H, extra=True):
    s = ''
    for k in range(H):
        s += '    vp_w[%d] = nondet_u8();\n' % k
    s += '    vp_wv = nondet_u64();\n    vp_wf = nondet_uint();\n    vp_wx = nondet_uint();\n'
    return s


def mk_job(model, f, name, enforce, replace, call, decls, kind, owners, function, extra_tu=None, replay=None, config='le'):
    tu = TU()
    tu.add(PRELUDE)
    enf = enforce.split('/')[-1] if enforce else None
    # the two generic routines are the only library functions with loops: they are ALWAYS replaced by their contracts, also
    # where the function under verification does not call them today (a wrapper that starts to read before it writes, a
    # setter that consults a sibling getter), so that such a change is verified instead of running into an unwound loop
    replace = list(replace)
    have = set(x.split('/')[0] for x in replace) | set([enforce.split('/')[0]] if enforce else [])
    for extra in ('Avtp_GetField', 'Avtp_SetField'):
        if extra not in have:
            replace.append(extra)
    needed = set()
    for x in [enforce] + list(replace):
        if x:
            needed.update(x.split('/'))
    tu.extend(format_contracts(model, f, enforced=enf, needed=needed))
    if extra_tu is not None:
        tu.extend(extra_tu(enf) if callable(extra_tu) else extra_tu)
    tu.add('void harness(void)\n{')
    tu.add(havoc_witness(f.H))
    tu.add(decls)
    tu.add('    ' + call)
    tu.add('    VP_CANARY();\n}')
    return Job(name=name, src=tu.text(), sources=[f.spec['source'], 'src/avtp/Utils.c'], enforce=enforce,
               replace=replace, owners=owners, clause_map=tu.tags_of(enf), function=function, kind=kind,
               replay=replay, config=config, timeout=900)


def fit_wrapper(f, p, row):
    t = TU()
    t.add('void vp_fit_%s(%s* pdu, uint64_t v) { %s(pdu, v); }' % (p['name'], f.T, p['name']))
    return t


def jobs_for_format(model, f, config='le'):
    jobs = []
    T, E, H = f.T, f.E, f.H
    OW_GET = {'post': ['C01'], 'safety': ['C03'], 'assigns': ['C01', 'C16']}
    OW_SET = {'post': ['C02', 'C05'], 'safety': ['C03'], 'assigns': ['C02', 'C16']}
    OW_NULL = {'post': ['C11'], 'safety': ['C11'], 'assigns': ['C11'], 'assert': ['C11']}
    OW_INIT = {'post': ['C04', 'C05'], 'safety': ['C03'], 'assigns': ['C04', 'C05', 'C16']}
    rp = lambda **kw: dict(fmt=f.key, H=H, header=f.spec['header'], source=f.spec['source'], T=T, **kw)
    for (p, row) in f.getters:
        s, n = f.rows[row]
        jobs.append(mk_job(model, f, '%s/iface' % p['name'], p['name'], ['Avtp_GetField'],
                           '%s(pdu);' % p['name'], '    %s *pdu;' % T, 'getter', OW_GET, p['name'],
                           replay=rp(kind='getter', func=p['name'], s=s, n=n), config=config))
    p = f.getfield
    jobs.append(mk_job(model, f, '%s/iface' % p['name'], p['name'], ['Avtp_GetField'],
                       '%s(pdu, field);' % p['name'], '    %s *pdu; %s field;' % (T, E), 'getfield', OW_GET, p['name'],
                       replay=rp(kind='getfield', func=p['name'], E=E, MAX=f.MAX,
                                 rows={e: [r[1], r[2]] for e, r in f.enum_rows.items()}), config=config))
    for (p, row) in f.setters:
        s, n = f.rows[row]
        vt = p['params'][1]['type']
        jobs.append(mk_job(model, f, '%s/iface' % p['name'], p['name'], ['Avtp_SetField'],
                           '%s(pdu, value);' % p['name'], '    %s *pdu; %s value;' % (T, vt), 'setter', OW_SET, p['name'],
                           replay=rp(kind='setter', func=p['name'], s=s, n=n, vt=vt), config=config))
        jobs.append(mk_job(model, f, '%s/null' % p['name'], '%s/vp_null_%s' % (p['name'], p['name']),
                           ['Avtp_SetField/vp_K_set_inactive'],
                           '%s(pdu, value);' % p['name'], '    %s *pdu; %s value;' % (T, vt), 'setter-null', OW_NULL, p['name'],
                           replay=rp(kind='null', func=p['name'], call='%s(NULL, (%s)vp_wv)' % (p['name'], vt)), config=config))
        jobs.append(mk_job(model, f, '%s/fits' % p['name'], 'vp_fit_%s' % p['name'], [p['name']],
                           'vp_fit_%s(pdu, v);' % p['name'], '    %s *pdu; uint64_t v;' % T, 'setter-fit',
                           {'post': ['C02'], 'safety': ['C02'], 'assigns': ['C02']}, p['name'],
                           extra_tu=fit_wrapper(f, p, row),
                           replay=rp(kind='fit', func=p['name'], s=s, n=n, vt=vt), config=config))
    p = f.setfield
    jobs.append(mk_job(model, f, '%s/iface' % p['name'], p['name'], ['Avtp_SetField'],
                       '%s(pdu, field, value);' % p['name'], '    %s *pdu; %s field; uint64_t value;' % (T, E), 'setfield', OW_SET, p['name'],
                       replay=rp(kind='setfield', func=p['name'], E=E, MAX=f.MAX,
                                 rows={e: [r[1], r[2]] for e, r in f.enum_rows.items()}), config=config))
    jobs.append(mk_job(model, f, '%s/inactive' % p['name'], '%s/vp_inactive_%s' % (p['name'], p['name']),
                       ['Avtp_SetField/vp_K_set_inactive'],
                       '%s(pdu, field, value);' % p['name'], '    %s *pdu; %s field; uint64_t value;' % (T, E), 'setfield-inactive', OW_NULL, p['name'],
                       replay=rp(kind='setfield-inactive', func=p['name'], E=E, MAX=f.MAX), config=config))
    if f.init is not None:
        p = f.init
        setters = [q['name'] for (q, _) in f.setters] + [f.setfield['name']]
        jobs.append(mk_job(model, f, '%s/iface' % p['name'], p['name'], setters,
                           '%s(pdu);' % p['name'], '    %s *pdu;' % T, 'init', OW_INIT, p['name'],
                           replay=rp(kind='init', func=p['name'], img=canon_image(f)), config=config))
        jobs.append(mk_job(model, f, '%s/null' % p['name'], '%s/vp_null_%s' % (p['name'], p['name']),
                           [s_ + '/vp_null_' + s_ for s_ in [q['name'] for (q, _) in f.setters]] +
                           ['%s/vp_inactive_%s' % (f.setfield['name'], f.setfield['name'])],
                           '%s(pdu);' % p['name'], '    %s *pdu;' % T, 'init-null', OW_NULL, p['name'],
                           replay=rp(kind='null', func=p['name'], call='%s(NULL)' % p['name']), config=config))
    return jobs


def legacy_jobs(model, config='le'):
    jobs = []
    spec = model['spec']
    for key, lg in spec['legacy'].items():
        f = model['fmts'][key]
        ltu = (lambda enf, f=f, lg=lg: legacy_contracts(model, f, lg, enforced=enf))
        H = f.H
        protos = {p['name']: p for p in f.hdr['protos']}
        OW = {'post': ['C12'], 'safety': ['C12'], 'assigns': ['C12', 'C16']}
        OWI = {'post': ['C11'], 'safety': ['C11'], 'assigns': ['C11']}
        vt = 'uint%d_t' % lg['val_bits']
        pg, ps = protos[lg['get']], protos[lg['set']]
        fld_t = pg['params'][1]['type']
        rp = lambda **kw: dict(fmt=f.key, H=H, header=f.spec['header'], source=f.spec['source'], T=f.T, **kw)
        rows = {e: [r[1], r[2]] for e, r in f.enum_rows.items()}
        for a, r in lg.get('aliases', {}).items():
            rows[a] = list(f.rows[r])
        jobs.append(mk_job(model, f, '%s/iface' % lg['get'], lg['get'], [f.getfield['name'], f.setfield['name']],
                           '%s(pdu, field, val);' % lg['get'], '    %s pdu; %s field; %s *val;' % (pg['params'][0]['type'], fld_t, vt),
                           'legacy-get', OW, lg['get'], extra_tu=ltu,
                           replay=rp(kind='legacy-get', func=lg['get'], vt=vt, MAX=f.MAX, rows=rows, E=fld_t), config=config))
        jobs.append(mk_job(model, f, '%s/invalid' % lg['get'], '%s/vp_inval_%s' % (lg['get'], lg['get']), [f.getfield['name']],
                           '%s(pdu, field, val);' % lg['get'], '    %s pdu; %s field; %s *val;' % (pg['params'][0]['type'], fld_t, vt),
                           'legacy-get-invalid', OWI, lg['get'], extra_tu=ltu, config=config))
        jobs.append(mk_job(model, f, '%s/iface' % lg['set'], lg['set'], [f.setfield['name'], f.getfield['name']],
                           '%s(pdu, field, val);' % lg['set'], '    %s pdu; %s field; %s val;' % (ps['params'][0]['type'], fld_t, vt),
                           'legacy-set', OW, lg['set'], extra_tu=ltu,
                           replay=rp(kind='legacy-set', func=lg['set'], vt=vt, MAX=f.MAX, rows=rows, E=fld_t), config=config))
        jobs.append(mk_job(model, f, '%s/invalid' % lg['set'], '%s/vp_inval_%s' % (lg['set'], lg['set']),
                           ['%s/vp_inactive_%s' % (f.setfield['name'], f.setfield['name'])],
                           '%s(pdu, field, val);' % lg['set'], '    %s pdu; %s field; %s val;' % (ps['params'][0]['type'], fld_t, vt),
                           'legacy-set-invalid', OWI, lg['set'], extra_tu=ltu, config=config))
        if lg.get('init'):
            pi = protos[lg['init']]
            extra = lg.get('init_extra')
            decl = '    %s pdu;' % pi['params'][0]['type'] + ((' %s %s;' % (pi['params'][1]['type'], extra)) if extra else '')
            call = '%s(pdu%s);' % (lg['init'], (', ' + extra) if extra else '')
            callees = [q['name'] for (q, _) in f.setters] + [f.setfield['name'], lg['set']]
            if f.init is not None:
                callees.append(f.init['name'])
            OWL = {'post': ['C04', 'C05', 'C12'], 'safety': ['C12'], 'assigns': ['C04', 'C05', 'C12', 'C16']}
            jobs.append(mk_job(model, f, '%s/iface' % lg['init'], lg['init'], callees, call, decl, 'legacy-init', OWL,
                               lg['init'], extra_tu=ltu, config=config))
            jobs.append(mk_job(model, f, '%s/invalid' % lg['init'], '%s/vp_inval_%s' % (lg['init'], lg['init']),
                               [], call, decl, 'legacy-init-invalid', OWI, lg['init'], extra_tu=ltu, config=config))
    return jobs


def all_generated_jobs(model, config='le', formats=None):
    jobs = []
    for key, f in model['fmts'].items():
        if formats and key not in formats:
            continue
        jobs.extend(jobs_for_format(model, f, config))
    return jobs


if __name__ == '__main__':
    m = load_model(sys.argv[1] if len(sys.argv) > 1 else '/repo')
    js = all_generated_jobs(m) + legacy_jobs(m)
    print(len(js), 'jobs')
    from collections import Counter
    print(Counter(j.kind for j in js))
    if len(sys.argv) > 2:
        for j in js:
            if j.name == sys.argv[2]:
                print(j.src)
