#!/usr/bin/env python3
"""Hand-written obligations, part 2: ACF-CAN builders (C06), Avtp_Vss_Pad (C09), header-size
facts (C03/C12), overlapping views (C17), operation histories over two buffers (C05)."""
import os

from vplib import Job, VERIF, scan_tags

GHOSTS = 'size_t vp_i, vp_j, vp_extra;\n'
HAVOC_GHOSTS = '    vp_i = nondet_size(); vp_j = nondet_size(); vp_extra = nondet_size();\n'


def hand_tu(model, fmt_keys, needed, header, body, enforced=None):
    """PRELUDE + generated contracts of the listed formats (only `needed`) + hand header + harness."""
    import gen_contracts as G
    tu = G.TU()
    tu.add(G.PRELUDE)
    for k in fmt_keys:
        tu.extend(G.format_contracts(model, model['fmts'][k], enforced=enforced, needed=set(needed)))
    tu.add(GHOSTS)
    if header:
        tu.add('#include "%s"' % header)
    tu.add(body)
    return tu


def havoc_w(H):
    return ''.join('    vp_w[%d] = nondet_u8();\n' % k for k in range(H)) + \
        '    vp_wv = nondet_u64(); vp_wf = nondet_uint(); vp_wx = nondet_uint();\n' + HAVOC_GHOSTS


# --------------------------------------------------------------------------------------
# C06: ACF-CAN builders (contracts/can.h; field accessors replaced by generated contracts)
# --------------------------------------------------------------------------------------
CAN_REPLAY = r'''#include <stdio.h>
#include <stdlib.h>
#include <string.h>
#include "vp_spec.h"
#include "avtp/acf/Can.h"
#include "avtp/acf/CanBrief.h"
#define PADOF(len) ((4u - ((len) %% 4u)) %% 4u)
int main(void){
  const unsigned H = %(H)d; unsigned len = %(wx)uu; unsigned id = (unsigned)%(wv)uull; unsigned var = %(wf)uu; unsigned pad = PADOF(len);
  static const uint8_t hdr[40] = {%(wbytes)s};
  unsigned total = H + len + pad, slack = 8; int bad = 0;
  uint8_t *b = malloc(total + slack), *b0 = malloc(total + slack), *pl = malloc(len ? len : 1);
  for (unsigned k = 0; k < total + slack; k++) b[k] = (uint8_t)(0xA5 ^ k); memcpy(b, hdr, H); memcpy(b0, b, total + slack);
  for (unsigned k = 0; k < len; k++) pl[k] = (uint8_t)(k * 7 + 1);
  %(call)s
  for (unsigned k = 0; k < H; k++) { uint8_t e = b0[k];
    %(hdr_expect)s
    if (b[k] != e) { bad = 1; printf("header byte %%u is 0x%%02x, expected 0x%%02x\n", k, b[k], e); } }
  %(body_expect)s
  for (unsigned k = total; k < total + slack; k++) if (b[k] != b0[k]) { bad = 1; printf("byte %%u beyond the padded message modified\n", k); }
  printf(bad ? "REPRODUCED\n" : "NOT-REPRODUCED\n"); return bad; }
'''
HDR_FIN = 'e = vp_put_byte(e, k, 7, 9, (H + len + pad) / 4); e = vp_put_byte(e, k, 16, 2, pad);'
BODY_COPY = 'for (unsigned k = 0; k < len; k++) if (b[H + k] != pl[k]) { bad = 1; printf("payload byte %%u wrong\\n", k); }'
BODY_KEEP = 'for (unsigned k = 0; k < len; k++) if (b[H + k] != b0[H + k]) { bad = 1; printf("payload byte %%u modified\\n", k); }'
BODY_PAD = 'for (unsigned k = 0; k < pad; k++) if (b[H + len + k] != 0) { bad = 1; printf("pad byte %%u not zero\\n", k); }'


def can_jobs(model, config='le'):
    jobs = []
    tags = scan_tags(os.path.join(VERIF, 'contracts', 'can.h'))
    ow = {'post': ['C06'], 'safety': ['C06', 'C03'], 'assigns': ['C06', 'C16']}
    srcs = ['src/avtp/acf/Can.c', 'src/avtp/acf/CanBrief.c', 'src/avtp/Utils.c']

    def mk(name, fmt, needed, enforce, replace, decl, call, H, rp, timeout=600):
        body = 'void harness(void)\n{\n' + havoc_w(H) + decl + '\n    ' + call + '\n    VP_CANARY();\n}\n'
        tu = hand_tu(model, [fmt], needed, 'can.h', body)
        cm = dict(tags)       # tags of the replaced generated contracts are not obligations of this job
        rp = {k: (v.replace('%%', '%') if isinstance(v, str) else v) for k, v in rp.items()}
        rp = dict(rp, kind='custom', template=CAN_REPLAY, H=H, nw=40)
        return Job(name, tu.text(), srcs, enforce=enforce, replace=replace, owners=ow, clause_map=cm,
                   function=enforce, kind='can-builder', config=config, extra_cc=['-DVP_BINDINGS'], timeout=timeout, replay=rp)

    jobs.append(mk('Avtp_Can_SetPayload/iface', 'can', [], 'Avtp_Can_SetPayload', [],
                   '    Avtp_Can_t *pdu; uint8_t *payload; uint16_t len;', 'Avtp_Can_SetPayload(pdu, payload, len);', 16,
                   {'call': 'Avtp_Can_SetPayload((Avtp_Can_t*)b, pl, len); pad = 0; total = H + len;', 'hdr_expect': '', 'body_expect': BODY_COPY}))
    jobs.append(mk('Avtp_Can_Finalize/iface', 'can', ['Avtp_Can_SetField'], 'Avtp_Can_Finalize', ['Avtp_Can_SetField'],
                   '    Avtp_Can_t *pdu; uint16_t len;', 'Avtp_Can_Finalize(pdu, len);', 16,
                   {'call': 'Avtp_Can_Finalize((Avtp_Can_t*)b, len);', 'hdr_expect': HDR_FIN, 'body_expect': BODY_KEEP + BODY_PAD}))
    jobs.append(mk('Avtp_Can_CreateAcfMessage/iface', 'can', ['Avtp_Can_SetField'], 'Avtp_Can_CreateAcfMessage',
                   ['Avtp_Can_SetField', 'Avtp_Can_SetPayload', 'Avtp_Can_Finalize'],
                   '    Avtp_Can_t *pdu; uint8_t *payload; uint16_t len; uint32_t id; Avtp_CanVariant_t variant;',
                   'Avtp_Can_CreateAcfMessage(pdu, id, payload, len, variant);', 16,
                   {'call': 'Avtp_Can_CreateAcfMessage((Avtp_Can_t*)b, id, pl, len, (Avtp_CanVariant_t)var);',
                    'hdr_expect': 'e = vp_put_byte(e, k, 20, 1, id > 0x7ff); e = vp_put_byte(e, k, 99, 29, id); e = vp_put_byte(e, k, 22, 1, var);' + HDR_FIN,
                    'body_expect': BODY_COPY + BODY_PAD}))
    jobs.append(mk('Avtp_Can_GetPayload/iface', 'can', [], 'Avtp_Can_GetPayload', [],
                   '    Avtp_Can_t *pdu;', 'Avtp_Can_GetPayload(pdu);', 16,
                   {'call': 'if (Avtp_Can_GetPayload((Avtp_Can_t*)b) != b + 16) { bad = 1; printf("payload accessor is not header end\\n"); }', 'hdr_expect': '', 'body_expect': ''}))
    jobs.append(mk('Avtp_Can_GetCanPayloadLength/iface', 'can', ['Avtp_Can_GetAcfMsgLength', 'Avtp_Can_GetPad'],
                   'Avtp_Can_GetCanPayloadLength', ['Avtp_Can_GetAcfMsgLength', 'Avtp_Can_GetPad'],
                   '    Avtp_Can_t *pdu;', 'Avtp_Can_GetCanPayloadLength(pdu);', 16,
                   {'call': 'if (Avtp_Can_GetCanPayloadLength((Avtp_Can_t*)b) != len) { bad = 1; printf("payload length read back wrong\\n"); }', 'hdr_expect': '', 'body_expect': ''}))
    jobs.append(mk('Avtp_CanBrief_Finalize/iface', 'can_brief', ['Avtp_CanBrief_SetField'], 'Avtp_CanBrief_Finalize', ['Avtp_CanBrief_SetField'],
                   '    Avtp_CanBrief_t *pdu; uint16_t len;', 'Avtp_CanBrief_Finalize(pdu, len);', 8,
                   {'call': 'int rc = Avtp_CanBrief_Finalize((Avtp_CanBrief_t*)b, len); if (rc != (int)total) { bad = 1; printf("returned %%d, padded length %%u\\n", rc, total); }',
                    'hdr_expect': HDR_FIN, 'body_expect': BODY_KEEP + BODY_PAD}))
    jobs.append(mk('Avtp_CanBrief_SetPayload/iface', 'can_brief', ['Avtp_CanBrief_SetField'], 'Avtp_CanBrief_SetPayload',
                   ['Avtp_CanBrief_SetField', 'Avtp_CanBrief_Finalize'],
                   '    Avtp_CanBrief_t *pdu; uint8_t *payload; uint16_t len; uint32_t id; Avtp_CanVariant_t variant;',
                   'Avtp_CanBrief_SetPayload(pdu, id, payload, len, variant);', 8,
                   {'call': 'int rc = Avtp_CanBrief_SetPayload((Avtp_CanBrief_t*)b, id, pl, len, (Avtp_CanVariant_t)var); if (rc != (int)total) { bad = 1; printf("returned %%d, padded length %%u\\n", rc, total); }',
                    'hdr_expect': 'e = vp_put_byte(e, k, 20, 1, id > 0x7ff); e = vp_put_byte(e, k, 35, 29, id); e = vp_put_byte(e, k, 22, 1, var);' + HDR_FIN,
                    'body_expect': BODY_COPY + BODY_PAD}))
    return jobs


# --------------------------------------------------------------------------------------
# C09: Avtp_Vss_Pad
# --------------------------------------------------------------------------------------
VSSPAD_REPLAY = r'''#include <stdio.h>
#include <stdlib.h>
#include <string.h>
#include "vp_spec.h"
#include "avtp/acf/custom/Vss.h"
int main(void){
  unsigned len = %(wx)uu, pad = (4u - (len %% 4u)) %% 4u, total = len + pad, slack = 8; int bad = 0;
  static const uint8_t hdr[40] = {%(wbytes)s};
  uint8_t *b = malloc(total + slack), *b0 = malloc(total + slack);
  for (unsigned k = 0; k < total + slack; k++) b[k] = (uint8_t)(0xA5 ^ k); memcpy(b, hdr, 12); memcpy(b0, b, total + slack);
  Avtp_Vss_Pad((Avtp_Vss_t*)b, (uint16_t)len);
  for (unsigned k = 0; k < total + slack; k++) { uint8_t e = b0[k];
    if (k < 12) { e = vp_put_byte(e, k, 7, 9, total / 4); e = vp_put_byte(e, k, 16, 2, pad); }
    if (k >= len && k < total) e = 0;
    if (b[k] != e) { bad = 1; printf("byte %%u is 0x%%02x, expected 0x%%02x\n", k, b[k], e); } }
  printf(bad ? "REPRODUCED\n" : "NOT-REPRODUCED\n"); return bad; }
'''


def vsspad_jobs(model, config='le'):
    tags = scan_tags(os.path.join(VERIF, 'contracts', 'vss_pad.h'))
    ow = {'post': ['C09'], 'safety': ['C09', 'C03'], 'assigns': ['C09', 'C16']}
    body = ('void harness(void)\n{\n' + havoc_w(12) +
            '    Avtp_Vss_t *pdu; uint16_t len;\n    Avtp_Vss_Pad(pdu, len);\n    VP_CANARY();\n}\n')
    tu = hand_tu(model, ['vss'], ['Avtp_Vss_SetField'], 'vss_pad.h', body)
    cm = dict(tags)
    return [Job('Avtp_Vss_Pad/iface', tu.text(), ['src/avtp/acf/custom/Vss.c', 'src/avtp/Utils.c'], enforce='Avtp_Vss_Pad',
                replace=['Avtp_Vss_SetField'], owners=ow, clause_map=cm, function='Avtp_Vss_Pad', kind='vss-pad',
                config=config, extra_cc=['-DVP_BINDINGS'], timeout=600,
                replay={'kind': 'custom', 'template': VSSPAD_REPLAY, 'nw': 40})]


# --------------------------------------------------------------------------------------
# C03 / C12: header-size facts (constant obligations taken from the real headers)
# --------------------------------------------------------------------------------------
def size_jobs(model, config='le'):
    jobs = []
    for key, f in model['fmts'].items():
        H = f.H
        src = ('#include <stddef.h>\n#include "vp_env.h"\n#include "%s"\nvoid harness(void)\n{\n'
               '    __CPROVER_assert(sizeof(%s) == %du, "C03: sizeof(header type) equals the wire header size");\n'
               '    __CPROVER_assert((%s) == %d, "C03: published header length equals the wire header size");\n'
               '    __CPROVER_assert(offsetof(%s, payload) == %du, "C03: payload member starts right after the header");\n'
               '    __CPROVER_assert(offsetof(%s, header) == 0u, "C03: header member at offset 0");\n'
               '    __CPROVER_assert((%s) %% 4 == 0, "C03: whole number of quadlets");\n'
               '    VP_CANARY();\n}\n' % (f.spec['header'], f.T, H, f.spec['len_macro'], H, f.T, H, f.T, f.spec['len_macro']))
        jobs.append(Job('sizes/%s' % key, src, [], no_dfcc=True, config=config, owners={'assert': ['C03'], 'safety': ['C03']},
                        kind='sizes', timeout=120))
    # legacy packed structures overlay the current header types (C12); one TU per header
    # (Crf.h and Cvf.h cannot be combined: both define struct Avtp_Cvf)
    parts = {
        'common': ('#include "avtp/CommonHeader.h"\n', [
            ('sizeof(struct avtp_common_pdu) == sizeof(Avtp_CommonHeader_t)', 'legacy common PDU has the size of the current header type'),
            ('offsetof(struct avtp_common_pdu, pdu_specific) == offsetof(Avtp_CommonHeader_t, payload)', 'legacy common payload offset'),
            ('offsetof(struct avtp_stream_pdu, stream_id) == 4 && offsetof(struct avtp_stream_pdu, avtp_time) == 12 && '
             'offsetof(struct avtp_stream_pdu, format_specific) == 16 && offsetof(struct avtp_stream_pdu, packet_info) == 20',
             'legacy stream members overlay the wire quadlets')]),
        'pcm': ('#include "avtp/CommonHeader.h"\n#include "avtp/aaf/Pcm.h"\n', [
            ('sizeof(struct avtp_stream_pdu) == sizeof(Avtp_Pcm_t)', 'legacy stream PDU has the size of the AAF-PCM header type'),
            ('offsetof(struct avtp_stream_pdu, avtp_payload) == offsetof(Avtp_Pcm_t, payload)', 'legacy stream payload offset (AAF)')]),
        'cvf': ('#include "avtp/CommonHeader.h"\n#include "avtp/cvf/Cvf.h"\n', [
            ('sizeof(struct avtp_stream_pdu) == sizeof(Avtp_Cvf_t)', 'legacy stream PDU has the size of the CVF header type'),
            ('offsetof(struct avtp_stream_pdu, avtp_payload) == offsetof(Avtp_Cvf_t, payload)', 'legacy stream payload offset (CVF)')]),
        'crf': ('#include "avtp/Crf.h"\n', [
            ('sizeof(struct avtp_crf_pdu) == sizeof(Avtp_Crf_t)', 'legacy CRF PDU has the size of the current header type'),
            ('offsetof(struct avtp_crf_pdu, crf_data) == offsetof(Avtp_Crf_t, payload)', 'legacy CRF payload offset')]),
        'rvf': ('#include "avtp/CommonHeader.h"\n#include "avtp/Rvf.h"\n', [
            ('sizeof(struct avtp_stream_pdu) + sizeof(struct avtp_rvf_payload) == sizeof(Avtp_Rvf_t)',
             'legacy stream PDU + RVF raw header have the size of the current RVF header type'),
            ('offsetof(struct avtp_rvf_payload, raw_data) == 8', 'legacy RVF raw payload offset')]),
    }
    for k, (inc, asserts) in parts.items():
        src = '#include <stddef.h>\n#include "vp_env.h"\n' + inc + 'void harness(void)\n{\n'
        for cond, what in asserts:
            src += '    __CPROVER_assert(%s, "C12: %s");\n' % (cond, what)
        src += '    VP_CANARY();\n}\n'
        jobs.append(Job('sizes/legacy-structs-%s' % k, src, [], no_dfcc=True, config=config,
                        owners={'assert': ['C12'], 'safety': ['C12']}, kind='sizes', timeout=120))
    return jobs


# --------------------------------------------------------------------------------------
# C17: overlapping header views agree (client lemmas over the generated contracts only)
# --------------------------------------------------------------------------------------
def _enum_for_row(f, row):
    for e, (r, s, n) in f.enum_rows.items():
        if r == row:
            return e, s, n
    return None


def view_jobs(model, config='le'):
    jobs = []
    spec = model['spec']
    work = []
    for grp in spec['shared_views']:
        for other in grp['formats'][1:]:
            work.append((grp, other, False))
            if grp['group'] == 'aaf_vs_pcm':
                # Pcm.h's legacy alias macros AVTP_AAF_FIELD_* shadow Aaf.h's enumerators of the same
                # name when both headers are included; this variant passes identifiers by VALUE
                # (resolved with each header alone) so that the functions themselves are compared.
                work.append((grp, other, True))
    for grp, other, byval in work:
        a = model['fmts'][grp['formats'][0]]
        b = model['fmts'][other]
        ren = grp.get('rename', {})
        Hm = max(a.H, b.H)
        lines = []
        for fld in grp['fields']:
            ra = ren.get(a.key, {}).get(fld, fld)
            rb = ren.get(b.key, {}).get(fld, fld)
            ea, eb = _enum_for_row(a, ra), _enum_for_row(b, rb)
            if ea is None or eb is None:
                raise RuntimeError('shared field %s missing in %s/%s' % (fld, a.key, b.key))
            if (ea[1], ea[2]) != (eb[1], eb[2]):
                raise RuntimeError('oracle rows of shared field %s differ between %s and %s' % (fld, a.key, b.key))
            n = ea[2]
            ia, ib = ea[0], eb[0]
            if byval:
                ia = '(%s)%d' % (a.E, dict(a.enum_items)[ea[0]])
                ib = '(%s)%d' % (b.E, dict(b.enum_items)[eb[0]])
            GA = '%s((%s*)buf, %s)' % (a.getfield['name'], a.T, ia)
            GB = '%s((%s*)buf, %s)' % (b.getfield['name'], b.T, ib)
            lines.append('    __CPROVER_assert(%s == %s, "C17: %s read identically through %s and %s");' % (GA, GB, fld, a.key, b.key))
            lines.append('    %s((%s*)buf, %s, v);' % (a.setfield['name'], a.T, ia))
            lines.append('    __CPROVER_assert(%s == (v & VP_MASK64(%d)), "C17: %s written through %s reads back through %s");' % (GB, n, fld, a.key, b.key))
            lines.append('    %s((%s*)buf, %s, w);' % (b.setfield['name'], b.T, ib))
            lines.append('    __CPROVER_assert(%s == (w & VP_MASK64(%d)), "C17: %s written through %s reads back through %s");' % (GA, n, fld, b.key, a.key))
        body = ('void vp_views(uint8_t *buf, uint64_t v, uint64_t w)\n__CPROVER_requires(__CPROVER_is_fresh(buf, %d))\n'
                '__CPROVER_assigns(__CPROVER_object_upto(buf, %d))\n__CPROVER_ensures(1)\n{\n%s\n}\n'
                'void harness(void)\n{\n    uint8_t *buf; uint64_t v = nondet_u64(), w = nondet_u64();\n    vp_views(buf, v, w);\n    VP_CANARY();\n}\n'
                % (Hm, Hm, '\n'.join(lines)))
        needed = [a.getfield['name'], a.setfield['name'], b.getfield['name'], b.setfield['name']]
        tu = hand_tu(model, [a.key, b.key], needed, None, body)
        jobs.append(Job('views/%s/%s-vs-%s%s' % (grp['group'], a.key, b.key, '-by-value' if byval else ''), tu.text(),
                        [a.spec['source'], b.spec['source'], 'src/avtp/Utils.c'], enforce='vp_views', replace=needed,
                        owners={'assert': ['C17'], 'safety': ['C17'], 'assigns': ['C17'], 'post': ['C17']},
                        function=None, kind='views', config=config, timeout=600, obj_bits=12))
    return jobs


# --------------------------------------------------------------------------------------
# C05: operation sequences over two buffers of two formats (client lemma over contracts)
# --------------------------------------------------------------------------------------
def _row_fn(f):
    s = 'static inline unsigned vp_s_%s(unsigned f)\n{\n' % f.key
    for e, (r, st, n) in f.enum_rows.items():
        s += '    if (f == (unsigned)%s) return %du;\n' % (e, st)
    s += '    return 0u;\n}\nstatic inline unsigned vp_n_%s(unsigned f)\n{\n' % f.key
    for e, (r, st, n) in f.enum_rows.items():
        s += '    if (f == (unsigned)%s) return %du;\n' % (e, n)
    s += '    return 0u;\n}\n'
    return s


def history_jobs(model, pairs, config='le'):
    jobs = []
    for ka, kb in pairs:
        a, b = model['fmts'][ka], model['fmts'][kb]
        pre = _row_fn(a) + _row_fn(b)
        snap_a = ''.join('    uint8_t a0_%d = pa->header[%d];\n' % (k, k) for k in range(a.H))
        snap_b = ''.join('    uint8_t b0_%d = pb->header[%d];\n' % (k, k) for k in range(b.H))
        chk_a = ''.join('    __CPROVER_assert(pa->header[%d] == vp_put_byte(vp_put_byte(a0_%d, %d, vp_s_%s(f1), vp_n_%s(f1), v1), %d, vp_s_%s(f2), vp_n_%s(f2), v2), '
                        '"C05: buffer A equals the reference encoding of its own history only");\n' % (k, k, k, ka, ka, k, ka, ka) for k in range(a.H))
        chk_b = ''.join('    __CPROVER_assert(pb->header[%d] == vp_put_byte(b0_%d, %d, vp_s_%s(g1), vp_n_%s(g1), w1), '
                        '"C05: buffer B equals the reference encoding of its own history only");\n' % (k, k, k, kb, kb) for k in range(b.H))
        body = pre + ('void vp_history(%s *pa, %s *pb, %s f1, %s f2, %s f3, %s g1, uint64_t v1, uint64_t v2, uint64_t w1)\n'
                      '__CPROVER_requires(__CPROVER_is_fresh(pa, %d) && __CPROVER_is_fresh(pb, %d))\n'
                      '__CPROVER_requires((unsigned)f1 < (unsigned)%s && (unsigned)f2 < (unsigned)%s && (unsigned)f3 < (unsigned)%s && (unsigned)g1 < (unsigned)%s)\n'
                      '__CPROVER_assigns(__CPROVER_object_upto(pa->header, %d); __CPROVER_object_upto(pb->header, %d))\n__CPROVER_ensures(1)\n{\n'
                      % (a.T, b.T, a.E, a.E, a.E, b.E, a.H, b.H, a.MAX, a.MAX, a.MAX, b.MAX, a.H, b.H))
        body += snap_a + snap_b
        body += ('    %s(pa, f1, v1);\n    %s(pb, g1, w1);\n    uint64_t r0 = %s(pa, f3);\n    %s(pa, f2, v2);\n'
                 '    uint64_t r1 = %s(pb, g1);\n    uint64_t r2 = %s(pa, f2);\n' % (
                     a.setfield['name'], b.setfield['name'], a.getfield['name'], a.setfield['name'],
                     b.getfield['name'], a.getfield['name']))
        body += chk_a + chk_b
        body += ('    __CPROVER_assert(r1 == (w1 & VP_MASK64(vp_n_%s(g1))), "C05: field of B reads as the last value written to it, whatever happened to A");\n'
                 '    __CPROVER_assert(r2 == (v2 & VP_MASK64(vp_n_%s(f2))), "C05: field of A reads as the last value written to it");\n'
                 '}\n' % (kb, ka))
        body += ('void harness(void)\n{\n    %s *pa; %s *pb; %s f1, f2, f3; %s g1; uint64_t v1 = nondet_u64(), v2 = nondet_u64(), w1 = nondet_u64();\n'
                 '    vp_history(pa, pb, f1, f2, f3, g1, v1, v2, w1);\n    VP_CANARY();\n}\n' % (a.T, b.T, a.E, b.E))
        needed = [a.getfield['name'], a.setfield['name'], b.getfield['name'], b.setfield['name']]
        tu = hand_tu(model, [ka, kb], needed, None, body)
        jobs.append(Job('history/%s+%s' % (ka, kb), tu.text(), [a.spec['source'], b.spec['source'], 'src/avtp/Utils.c'],
                        enforce='vp_history', replace=needed,
                        owners={'assert': ['C05'], 'safety': ['C05'], 'assigns': ['C05'], 'post': ['C05']},
                        function=None, kind='history', config=config, timeout=900, obj_bits=12))
    return jobs
