/* Contracts of the 15 inline byte-order helpers (include/avtp/Byteorder.h), C13.
 * The memory-image clauses are the same text for little- and big-endian hosts; the
 * value-form clauses (identity vs. swap) are selected by the host byte order and are
 * mirror images of each other. */
#ifndef VP_CONTRACTS_BYTEORDER_H
#define VP_CONTRACTS_BYTEORDER_H
#include "vp_env.h"
#include "vp_spec.h"
#include "avtp/Byteorder.h"
#if (__BYTE_ORDER__ == __ORDER_LITTLE_ENDIAN__)
#define VP_HOST_LE 1
#else
#define VP_HOST_LE 0
#endif

static inline uint16_t Avtp_Bswap16(uint16_t x)
__CPROVER_requires(VP_WBIND(vp_wv == (uint64_t)x))
__CPROVER_assigns()
__CPROVER_ensures(__CPROVER_return_value == vp_rev16(x)) /*TAG C13:swap-reverses-bytes*/
;
static inline uint32_t Avtp_Bswap32(uint32_t x)
__CPROVER_requires(VP_WBIND(vp_wv == (uint64_t)x))
__CPROVER_assigns()
__CPROVER_ensures(__CPROVER_return_value == vp_rev32(x)) /*TAG C13:swap-reverses-bytes*/
;
static inline uint64_t Avtp_Bswap64(uint64_t x)
__CPROVER_requires(VP_WBIND(vp_wv == (uint64_t)x))
__CPROVER_assigns()
__CPROVER_ensures(__CPROVER_return_value == vp_rev64(x)) /*TAG C13:swap-reverses-bytes*/
;
static inline uint16_t Avtp_CpuToBe16(uint16_t x)
__CPROVER_requires(VP_WBIND(vp_wv == (uint64_t)x))
__CPROVER_assigns()
__CPROVER_ensures(vp_img16_is_be(__CPROVER_return_value, x)) /*TAG C13:host-to-be-memory-image-is-big-endian*/
__CPROVER_ensures(__CPROVER_return_value == (VP_HOST_LE ? vp_rev16(x) : x)) /*TAG C13:mirror-image-value-form*/
;
static inline uint16_t Avtp_CpuToLe16(uint16_t x)
__CPROVER_requires(VP_WBIND(vp_wv == (uint64_t)x))
__CPROVER_assigns()
__CPROVER_ensures(vp_img16_is_le(__CPROVER_return_value, x)) /*TAG C13:host-to-le-memory-image-is-little-endian*/
__CPROVER_ensures(__CPROVER_return_value == (VP_HOST_LE ? x : vp_rev16(x))) /*TAG C13:mirror-image-value-form*/
;
static inline uint16_t Avtp_BeToCpu16(uint16_t x)
__CPROVER_requires(VP_WBIND(vp_wv == (uint64_t)x))
__CPROVER_assigns()
__CPROVER_ensures(vp_img16_is_be(x, __CPROVER_return_value)) /*TAG C13:be-to-host-inverts*/
__CPROVER_ensures(__CPROVER_return_value == (VP_HOST_LE ? vp_rev16(x) : x)) /*TAG C13:mirror-image-value-form*/
;
static inline uint16_t Avtp_LeToCpu16(uint16_t x)
__CPROVER_requires(VP_WBIND(vp_wv == (uint64_t)x))
__CPROVER_assigns()
__CPROVER_ensures(vp_img16_is_le(x, __CPROVER_return_value)) /*TAG C13:le-to-host-inverts*/
__CPROVER_ensures(__CPROVER_return_value == (VP_HOST_LE ? x : vp_rev16(x))) /*TAG C13:mirror-image-value-form*/
;
static inline uint32_t Avtp_CpuToBe32(uint32_t x)
__CPROVER_requires(VP_WBIND(vp_wv == (uint64_t)x))
__CPROVER_assigns()
__CPROVER_ensures(vp_img32_is_be(__CPROVER_return_value, x)) /*TAG C13:host-to-be-memory-image-is-big-endian*/
__CPROVER_ensures(__CPROVER_return_value == (VP_HOST_LE ? vp_rev32(x) : x)) /*TAG C13:mirror-image-value-form*/
;
static inline uint32_t Avtp_CpuToLe32(uint32_t x)
__CPROVER_requires(VP_WBIND(vp_wv == (uint64_t)x))
__CPROVER_assigns()
__CPROVER_ensures(vp_img32_is_le(__CPROVER_return_value, x)) /*TAG C13:host-to-le-memory-image-is-little-endian*/
__CPROVER_ensures(__CPROVER_return_value == (VP_HOST_LE ? x : vp_rev32(x))) /*TAG C13:mirror-image-value-form*/
;
static inline uint32_t Avtp_BeToCpu32(uint32_t x)
__CPROVER_requires(VP_WBIND(vp_wv == (uint64_t)x))
__CPROVER_assigns()
__CPROVER_ensures(vp_img32_is_be(x, __CPROVER_return_value)) /*TAG C13:be-to-host-inverts*/
__CPROVER_ensures(__CPROVER_return_value == (VP_HOST_LE ? vp_rev32(x) : x)) /*TAG C13:mirror-image-value-form*/
;
static inline uint32_t Avtp_LeToCpu32(uint32_t x)
__CPROVER_requires(VP_WBIND(vp_wv == (uint64_t)x))
__CPROVER_assigns()
__CPROVER_ensures(vp_img32_is_le(x, __CPROVER_return_value)) /*TAG C13:le-to-host-inverts*/
__CPROVER_ensures(__CPROVER_return_value == (VP_HOST_LE ? x : vp_rev32(x))) /*TAG C13:mirror-image-value-form*/
;
static inline uint64_t Avtp_CpuToBe64(uint64_t x)
__CPROVER_requires(VP_WBIND(vp_wv == (uint64_t)x))
__CPROVER_assigns()
__CPROVER_ensures(vp_img64_is_be(__CPROVER_return_value, x)) /*TAG C13:host-to-be-memory-image-is-big-endian*/
__CPROVER_ensures(__CPROVER_return_value == (VP_HOST_LE ? vp_rev64(x) : x)) /*TAG C13:mirror-image-value-form*/
;
static inline uint64_t Avtp_CpuToLe64(uint64_t x)
__CPROVER_requires(VP_WBIND(vp_wv == (uint64_t)x))
__CPROVER_assigns()
__CPROVER_ensures(vp_img64_is_le(__CPROVER_return_value, x)) /*TAG C13:host-to-le-memory-image-is-little-endian*/
__CPROVER_ensures(__CPROVER_return_value == (VP_HOST_LE ? x : vp_rev64(x))) /*TAG C13:mirror-image-value-form*/
;
static inline uint64_t Avtp_BeToCpu64(uint64_t x)
__CPROVER_requires(VP_WBIND(vp_wv == (uint64_t)x))
__CPROVER_assigns()
__CPROVER_ensures(vp_img64_is_be(x, __CPROVER_return_value)) /*TAG C13:be-to-host-inverts*/
__CPROVER_ensures(__CPROVER_return_value == (VP_HOST_LE ? vp_rev64(x) : x)) /*TAG C13:mirror-image-value-form*/
;
static inline uint64_t Avtp_LeToCpu64(uint64_t x)
__CPROVER_requires(VP_WBIND(vp_wv == (uint64_t)x))
__CPROVER_assigns()
__CPROVER_ensures(vp_img64_is_le(x, __CPROVER_return_value)) /*TAG C13:le-to-host-inverts*/
__CPROVER_ensures(__CPROVER_return_value == (VP_HOST_LE ? x : vp_rev64(x))) /*TAG C13:mirror-image-value-form*/
;
#endif
