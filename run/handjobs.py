#!/usr/bin/env python3
"""Hand-written obligations: the two generic routines (loop contracts), spec meta-lemmas,
byte-order helpers, ACF-CAN builders, VSS codec, size facts, view pairs, examples."""
import os
import re

from vplib import Job, VERIF, REPO

LOOPS = os.path.join(VERIF, 'loops')


def _read(p):
    return open(p).read()


# --------------------------------------------------------------------------------------
# Utils.c: K_get / K_set / K_set_inactive enforced on the real bodies, loops closed by
# loop contracts (unbounded in descriptor, buffer and iteration count).
# --------------------------------------------------------------------------------------
H_UTILS = r'''#include <stdlib.h>
#include "vp_env.h"
#include "utils.h"

void harness(void)
{
    uint8_t numFields = nondet_u8();
    uint32_t field = nondet_u32();
    uint64_t value = nondet_u64();
    Avtp_FieldDescriptor_t *table = NULL;
    uint8_t *pdu = NULL;
    _Bool active = 0;
    if (nondet_bool()) {
        table = malloc((size_t)numFields * sizeof(Avtp_FieldDescriptor_t));
        __CPROVER_assume(table != NULL);
    }
    if (table != NULL && field < numFields) {
        unsigned nq = VP_NQ(table[field].offset, table[field].bits);
        unsigned q = table[field].quadlet;
        if (nondet_bool()) {
            pdu = malloc(4u * (q + nq));      /* EXACTLY the bytes up to the last touched quadlet */
            __CPROVER_assume(pdu != NULL);
            active = 1;
        }
    } else if (nondet_bool()) {
        pdu = malloc(1);
        __CPROVER_assume(pdu != NULL);
    }
    %(pre)s
    %(call)s
    if (active) __CPROVER_assert(0, "canary: active path reachable");
    if (!active) __CPROVER_assert(0, "canary: inactive path reachable");
    VP_CANARY();
}
'''


def utils_jobs(config='le', fallback=False):
    jobs = []
    src = ['src/avtp/Utils.c']
    lc_get = {'Avtp_GetField': [{'template': _read(os.path.join(LOOPS, 'getfield.inv')),
                                 'symbols': ['fieldDescriptor', 'processedBits', 'quadletOffset', 'result', 'pdu']}]}
    lc_set = {'Avtp_SetField': [{'template': _read(os.path.join(LOOPS, 'setfield.inv')),
                                 'symbols': ['fieldDescriptor', 'processedBits', 'quadletOffset', 'value', 'pdu']}]}
    ow_get = {'post': ['C01', 'C11', 'C14'], 'safety': ['C03', 'C01', 'C14'], 'assigns': ['C01', 'C16'], 'loop': ['C01', 'C03', 'C14']}
    ow_set = {'post': ['C02', 'C05', 'C14'], 'safety': ['C03', 'C02', 'C14'], 'assigns': ['C02', 'C03', 'C16'], 'loop': ['C02', 'C03', 'C14']}
    ow_ina = {'post': ['C11'], 'safety': ['C11'], 'assigns': ['C11', 'C16'], 'loop': ['C11']}
    jobs.append(Job('Avtp_GetField/K_get', H_UTILS % {'pre': '', 'call': 'Avtp_GetField(table, numFields, pdu, field);'}, src,
                    enforce='Avtp_GetField', loop_contracts=lc_get, owners=ow_get, function='Avtp_GetField',
                    kind='utils', config=config, timeout=900, solver='kissat'))
    jobs.append(Job('Avtp_SetField/K_set', H_UTILS % {'pre': '__CPROVER_assume(active);', 'call': 'Avtp_SetField(table, numFields, pdu, field, value);'}, src,
                    enforce='Avtp_SetField', loop_contracts=lc_set, owners=ow_set, function='Avtp_SetField',
                    kind='utils', config=config, timeout=1500, solver='kissat'))
    # inactive writer: the loop is unreachable under this contract; its loop contract is still
    # supplied so that no loop is left without one.
    jobs.append(Job('Avtp_SetField/K_set_inactive', H_UTILS % {'pre': '__CPROVER_assume(!active);', 'call': 'Avtp_SetField(table, numFields, pdu, field, value);'}, src,
                    enforce='Avtp_SetField/vp_K_set_inactive', loop_contracts=lc_set, owners=ow_ina, function='Avtp_SetField',
                    kind='utils', config=config, timeout=600))
    return jobs


LEMMAS = [
    ('lemma_get_bits_meaning', ['C01', 'C05']),
    ('lemma_get_bits_translation', ['C01']),
    ('lemma_put_byte_bits', ['C02', 'C05']),
    ('lemma_window_get', ['C01']),
    ('lemma_window_put', ['C02']),
    ('lemma_record_algebra', ['C05', 'C02']),
]


def lemma_jobs(config='le'):
    jobs = []
    txt = _read(os.path.join(VERIF, 'spec', 'lemmas', 'lemmas.c'))
    for fn, props in LEMMAS:
        jobs.append(Job('spec/' + fn, txt, [], entry=fn, no_dfcc=True, config=config,
                        owners={'assert': props, 'safety': props}, function=None, kind='lemma', timeout=900,
                        ignore_funcs=[f for f, _ in LEMMAS if f != fn]))
    return jobs


def all_hand_jobs(model, tier):
    jobs = []
    jobs += utils_jobs('le')
    jobs += lemma_jobs('le')
    return jobs
