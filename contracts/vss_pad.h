/* Hand-written contract of Avtp_Vss_Pad (C09): every message length up to the ACF maximum. */
#ifndef VP_CONTRACTS_VSS_PAD_H
#define VP_CONTRACTS_VSS_PAD_H
#include "vp_env.h"
#include "vp_spec.h"
#include "avtp/acf/custom/Vss.h"
extern size_t vp_i, vp_j, vp_extra;
#define VP_VSS_H 12u
#define VP_PADOF(len) ((4u - ((unsigned)(len) % 4u)) % 4u)
#define VP_VSS_HDR_FIN(old, k, len) \
    vp_put_byte(vp_put_byte((old), (k), 7, 9, ((len) + VP_PADOF(len)) / 4u), (k), 16, 2, VP_PADOF(len))
#define VP_E12(M) M(0) M(1) M(2) M(3) M(4) M(5) M(6) M(7) M(8) M(9) M(10) M(11)
#define VP_M(k) && pdu->header[k] == VP_VSS_HDR_FIN(__CPROVER_old(pdu->header[k]), k, vss_length)
void Avtp_Vss_Pad(Avtp_Vss_t* pdu, uint16_t vss_length)
__CPROVER_requires(VP_WBIND(vp_wx == vss_length))
__CPROVER_requires(vss_length >= VP_VSS_H && vss_length <= 2044 && vp_extra <= 8)
__CPROVER_requires(__CPROVER_is_fresh(pdu, vss_length + VP_PADOF(vss_length) + vp_extra))
__CPROVER_assigns(__CPROVER_object_upto(pdu->header, VP_VSS_H);
                  VP_PADOF(vss_length) != 0 : __CPROVER_object_upto((uint8_t *)pdu + vss_length, VP_PADOF(vss_length)))
__CPROVER_ensures(1 VP_E12(VP_M)) /*TAG C09:length-and-pad-fields-set-nothing-else-in-the-header-changed*/
__CPROVER_ensures(vp_get_bits(pdu->header, 7, 9) == ((unsigned)vss_length + 3u) / 4u) /*TAG C09:acf_msg_length-is-ceil(length/4)*/
__CPROVER_ensures(vp_get_bits(pdu->header, 16, 2) == VP_PADOF(vss_length)) /*TAG C09:pad-field-is-number-of-bytes-added*/
__CPROVER_ensures(vp_j < VP_PADOF(vss_length) ==> ((uint8_t *)pdu)[vss_length + vp_j] == 0) /*TAG C09:pad-bytes-after-the-message-are-zero*/
;
#undef VP_M
#endif
