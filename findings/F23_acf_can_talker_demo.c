/* acf-can-talker: `--count 30 --fd` packs 30 x 80 bytes into the 1500-byte packet buffer */
#include <sys/types.h>
#include <sys/socket.h>
#include <string.h>
#include <stdio.h>
#include <stdlib.h>
#include <unistd.h>
#include <linux/can.h>
static int sent;
static ssize_t my_read(int fd, void *buf, size_t n)
{ struct canfd_frame *f = buf; memset(f, 0, n); f->can_id = 0x123; f->len = (n == sizeof(struct canfd_frame)) ? 64 : 8; return (ssize_t)n; }
static ssize_t my_sendto(int fd, const void *buf, size_t len, int flags, const struct sockaddr *a, socklen_t al)
{ printf("sent a packet of %zu bytes\n", len); if (++sent == 2) exit(0); return (ssize_t)len; }
#define read my_read
#define sendto my_sendto
#define main talker_main
#include "acf-can/acf-can-talker.c"
#undef main
int create_talker_socket(int p) { return 3; }
int create_talker_socket_udp(int p) { return 3; }
int setup_socket_address(int fd, const char *i, uint8_t m[], int pr, struct sockaddr_ll *a) { return 0; }
int setup_udp_socket_address(struct in_addr *ip, uint32_t port, struct sockaddr_in *a) { return 0; }
int setup_can_socket(const char *i, Avtp_CanVariant_t v) { return 4; }
int main(void)
{
    char *argv[] = { "talker", "--fd", "--count", "30", NULL };
    return talker_main(4, argv);
}
