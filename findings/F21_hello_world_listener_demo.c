/* hello-world listener: a full-size datagram whose GPC text is not NUL terminated */
#include <sys/types.h>
#include <sys/socket.h>
#include <string.h>
#include <stdio.h>
static int calls;
static ssize_t my_recv(int fd, void *buf, size_t len, int flags)
{
    unsigned char *b = buf;
    if (calls++) return -1;
    memset(b, 'A', len);
    /* raw NTSCF: subtype 0x82, then ACF GPC (type 5) with acf_msg_length = 2 quadlets */
    b[0] = 0x82; b[1] = 0x80;
    b[12] = (5 << 1); b[13] = 2;
    return (ssize_t)len;
}
#define recv my_recv
#define main hw_main
#include "hello-world/hello-world-listener.c"
#undef main
int create_listener_socket(char *i, uint8_t m[], int p){return 3;}
int create_listener_socket_udp(uint32_t p){return 3;}
int main(void)
{
    char *argv[] = { "hw", NULL };
    hw_main(1, argv);
    return 0;
}
