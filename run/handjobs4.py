#!/usr/bin/env python3
"""C10: VSS string arrays.  Packing/unpacking content needs prefix-sum offsets, which CBMC
loop invariants cannot express without quantifiers; these obligations are therefore
BOUNDED stand-ins: at most NB strings (every string length symbolic 0..65535, total <=
65535), loops unwound NB+2 times with unwinding assertions.  Never counted as proof."""
import os

from vplib import Job, VERIF
from handjobs2 import GHOSTS, HAVOC_GHOSTS

VSS_SRC = 'src/avtp/acf/custom/Vss.c'


def off(k):
    return '(' + ' + '.join(['0u'] + ['(vp_len[%d] + 2u)' % j for j in range(k)]) + ')'


def contracts(NB):
    MB = NB + 1
    total = '(' + ' + '.join(['0u'] + ['((%du < vp_n) ? (vp_len[%d] + 2u) : 0u)' % (j, j) for j in range(NB)]) + ')'
    total_tf = '(' + ' + '.join(['0u'] + ['(vp_len[%d] + 2u) * (unsigned)(%du < vp_n)' % (j, j) for j in range(NB)]) + ')'
    t = []
    t.append('#include "vp_env.h"\n#include "vp_spec.h"\n#include "avtp/acf/custom/Vss.h"\n')
    t.append('extern unsigned vp_n, vp_m, vp_len[%d];\nextern size_t vp_i;\n' % MB)
    t.append('#define VP_TOTAL %s\n#define VP_TOTAL_TF %s\n' % (total, total_tf))
    # ---------------- Serialize
    t.append('void Avtp_Vss_SerializeStringArray(VssDataStringArray_t* arr, VssDataString_t* strings[], uint16_t num_strings)\n')
    lens_ok = ' && '.join('vp_len[%d] <= 65535u' % k for k in range(MB))
    t.append('__CPROVER_requires(%s)\n' % lens_ok)
    t.append('__CPROVER_requires(num_strings == vp_n && vp_n <= %du && VP_TOTAL <= 65535u)\n' % NB)
    t.append('__CPROVER_requires(__CPROVER_is_fresh(strings, %du * sizeof(VssDataString_t*)))\n' % NB)
    for k in range(NB):
        t.append('__CPROVER_requires(vp_len[%d] <= 65535u && (%du >= vp_n || (__CPROVER_is_fresh(strings[%d], sizeof(VssDataString_t)) && strings[%d]->data_length == vp_len[%d] && __CPROVER_is_fresh(strings[%d]->data, vp_len[%d]))))\n' % (k, k, k, k, k, k, k))
    t.append('__CPROVER_requires(__CPROVER_is_fresh(arr, sizeof(VssDataStringArray_t)) && __CPROVER_is_fresh(arr->data, VP_TOTAL))\n')   # EXACT extent
    t.append('__CPROVER_assigns(arr->data_length; __CPROVER_object_upto(arr->data, VP_TOTAL_TF))\n')
    t.append('__CPROVER_ensures(arr->data_length == VP_TOTAL) /*TAG C10:total-byte-length-recorded*/\n')
    for k in range(NB):
        t.append('__CPROVER_ensures(%du < vp_n ==> vp_be16(arr->data + %s) == vp_len[%d]) /*TAG C10:record-%d-16-bit-big-endian-length*/\n' % (k, off(k), k, k))
        t.append('__CPROVER_ensures((%du < vp_n && vp_i < vp_len[%d]) ==> arr->data[%s + 2u + vp_i] == (uint8_t)strings[%d]->data[vp_i]) /*TAG C10:record-%d-bytes-in-order*/\n' % (k, k, off(k), k, k))
    t.append(';\n')
    # well-formed packed array with vp_n records
    wf = ['__CPROVER_requires(%s)\n' % lens_ok,
          '__CPROVER_requires(vp_n <= %du && VP_TOTAL <= 65535u)\n' % NB,
          '__CPROVER_requires(__CPROVER_is_fresh(arr, sizeof(VssDataStringArray_t)) && arr->data_length == VP_TOTAL && __CPROVER_is_fresh(arr->data, VP_TOTAL))\n']
    for k in range(NB):
        wf.append('__CPROVER_requires(vp_len[%d] <= 65535u && (%du >= vp_n || vp_be16(arr->data + %s) == vp_len[%d]))\n' % (k, k, off(k), k))
    # ---------------- counter
    t.append('uint16_t Avtp_Vss_GetVSSDataStringArrayLength(VssDataStringArray_t* arr)\n' + ''.join(wf))
    t.append('__CPROVER_assigns()\n')
    t.append('__CPROVER_ensures(__CPROVER_return_value == vp_n) /*TAG C10:count-equals-number-of-packed-strings*/\n;\n')
    # ---------------- Deserialize: vp_m strings requested (greater, equal or smaller than vp_n)
    t.append('void Avtp_Vss_DeserializeStringArray(VssDataStringArray_t* arr, VssDataString_t* strings[], uint16_t num_strings)\n' + ''.join(wf))
    t.append('__CPROVER_requires(num_strings == vp_m && vp_m <= %du)\n' % MB)
    t.append('__CPROVER_requires(__CPROVER_is_fresh(strings, %du * sizeof(VssDataString_t*)))\n' % MB)
    for k in range(MB):
        ln = ('vp_len[%d]' % k)
        t.append('__CPROVER_requires(%du >= vp_m || (__CPROVER_is_fresh(strings[%d], sizeof(VssDataString_t)) && (strings[%d]->data == NULL || __CPROVER_is_fresh(strings[%d]->data, %s))))\n' % (k, k, k, k, ln))
    tg = []
    for k in range(MB):
        tg.append('(%du < vp_m && %du < vp_n) : strings[%d]->data_length' % (k, k, k))
        tg.append('(%du < vp_m && %du < vp_n && strings[%d]->data != NULL) : __CPROVER_object_upto(strings[%d]->data, vp_len[%d])' % (k, k, k, k, k))
    t.append('__CPROVER_assigns(' + ';\n    '.join(tg) + ')\n')
    for k in range(NB):
        t.append('__CPROVER_ensures((%du < vp_m && %du < vp_n) ==> strings[%d]->data_length == vp_len[%d]) /*TAG C10:unpacked-length-%d*/\n' % (k, k, k, k, k))
        t.append('__CPROVER_ensures((%du < vp_m && %du < vp_n && strings[%d]->data != NULL && vp_i < vp_len[%d]) ==> (uint8_t)strings[%d]->data[vp_i] == arr->data[%s + 2u + vp_i]) /*TAG C10:unpacked-bytes-%d*/\n' % (k, k, k, k, k, off(k), k))
    t.append(';\n')
    return ''.join(t)


def strarray_jobs(model, tier, config='le'):
    import re
    NB = 3 if tier == 'quick' else 5
    MB = NB + 1
    ctext = contracts(NB)
    jobs = []
    bound_txt = ('BOUNDED: string arrays of at most %d strings (every length symbolic 0..65535, total <= 65535, requested count 0..%d); '
                 'loop unwound %d times with unwinding assertions' % (NB, MB, NB + 2))
    for fn, decl, call in (
            ('Avtp_Vss_SerializeStringArray', 'VssDataStringArray_t *arr; VssDataString_t **strings; uint16_t n;', 'Avtp_Vss_SerializeStringArray(arr, strings, n);'),
            ('Avtp_Vss_GetVSSDataStringArrayLength', 'VssDataStringArray_t *arr;', 'Avtp_Vss_GetVSSDataStringArrayLength(arr);'),
            ('Avtp_Vss_DeserializeStringArray', 'VssDataStringArray_t *arr; VssDataString_t **strings; uint16_t n;', 'Avtp_Vss_DeserializeStringArray(arr, strings, n);')):
        src = ('#include <stdlib.h>\n' + ctext + 'unsigned vp_n, vp_m, vp_len[%d];\nsize_t vp_i;\n' % MB +
               'void harness(void)\n{\n    vp_n = nondet_uint(); vp_m = nondet_uint(); vp_i = nondet_size();\n' +
               ''.join('    vp_len[%d] = nondet_uint();\n' % k for k in range(MB)) +
               '    ' + decl + '\n    ' + call + '\n    VP_CANARY();\n}\n')
        cm = {}
        for i, l in enumerate(src.split('\n'), 1):
            m = re.search(r'/\*TAG\s+(\S+?)\s*\*/', l)
            if m:
                cm[i] = m.group(1)
        jobs.append(Job('%s/bounded-N%d' % (fn, NB), src, [VSS_SRC, 'src/avtp/Utils.c'], enforce=fn,
                        owners={'post': ['C10'], 'safety': ['C10'], 'assigns': ['C10', 'C16'], 'loop': ['C10'], 'unwind': ['C10']},
                        clause_map=cm, function=fn, kind='vss-strarray', config=config, timeout=1800, obj_bits=10, solver='kissat',
                        unwind={fn: NB + 2}, bounded=bound_txt))
    # more than 255 strings (the property names this case): the counter on an array of vp_n <= 300 EMPTY strings (2 zero bytes
    # each), loop unwound 302 times - a counter narrower than the count it returns is refuted here
    src = ('#include <stdlib.h>\n#include "vp_env.h"\n#include "avtp/acf/custom/Vss.h"\nunsigned vp_n;\n'
           'uint16_t vp_cnt_empty(VssDataStringArray_t* arr)\n'
           '__CPROVER_requires(vp_n <= 300u && __CPROVER_r_ok(arr, sizeof(*arr)) && arr->data_length == 2u * vp_n && __CPROVER_r_ok(arr->data, 2u * vp_n))\n'
           '__CPROVER_assigns()\n'
           '__CPROVER_ensures(__CPROVER_return_value == vp_n) /*TAG C10:count-equals-number-of-packed-strings(more-than-255-empty-strings)*/\n;\n'
           'void harness(void)\n{\n    vp_n = nondet_uint(); __CPROVER_assume(vp_n <= 300u);\n'
           '    VssDataStringArray_t a; a.data_length = (uint16_t)(2u * vp_n); a.data = calloc(2u * vp_n + 1u, 1); __CPROVER_assume(a.data != NULL);\n'
           '    Avtp_Vss_GetVSSDataStringArrayLength(&a);\n    VP_CANARY();\n}\n')
    cm = {}
    for i, l in enumerate(src.split('\n'), 1):
        m = re.search(r'/\*TAG\s+(\S+?)\s*\*/', l)
        if m:
            cm[i] = m.group(1)
    jobs.append(Job('Avtp_Vss_GetVSSDataStringArrayLength/bounded-300-empty-strings', src, [VSS_SRC, 'src/avtp/Utils.c'],
                    enforce='Avtp_Vss_GetVSSDataStringArrayLength/vp_cnt_empty',
                    owners={'post': ['C10'], 'safety': ['C10'], 'assigns': ['C10', 'C16'], 'loop': ['C10'], 'unwind': ['C10']},
                    clause_map=cm, function='Avtp_Vss_GetVSSDataStringArrayLength', kind='vss-strarray', config=config, timeout=1200,
                    unwind={'Avtp_Vss_GetVSSDataStringArrayLength': 302},
                    bounded='BOUNDED: arrays of at most 300 empty strings, counter loop unwound 302 times with unwinding assertions'))
    # type-level fact: the counter's return type carries every possible count (<= 32767)
    src = ('#include "vp_env.h"\n#include "avtp/acf/custom/Vss.h"\nvoid harness(void)\n{\n    VssDataStringArray_t *a = 0;\n'
           '    __CPROVER_assert(sizeof(Avtp_Vss_GetVSSDataStringArrayLength(a)) >= 2, "C10: the counter\'s return type carries every possible string count (up to 32767)");\n'
           '    VP_CANARY();\n}\n')
    jobs.append(Job('Avtp_Vss_GetVSSDataStringArrayLength/return-type', src, [], no_dfcc=True, config=config,
                    owners={'assert': ['C10'], 'safety': ['C10']}, kind='sizes', timeout=120))
    return jobs
