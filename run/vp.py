#!/usr/bin/env python3
"""Driver.  vp.py check <PROPERTY> [--tier quick|thorough]   (VERIF_TIER / VERIF_SEED honoured)
             vp.py replay <replay-file>
             vp.py list [<PROPERTY>]
Exit 0: every obligation of the property discharged (known findings listed);
exit 1: VIOLATION line(s); exit 2: undecided (tool failure / timeout / inventory mismatch)."""
import argparse
import atexit
import json
import os
import re
import shutil
import sys
import tempfile
import time

HERE = os.path.dirname(os.path.abspath(__file__))
sys.path.insert(0, HERE)
sys.path.insert(0, os.path.join(os.path.dirname(HERE), 'gen'))

import vplib  # noqa: E402
from vplib import VERIF, REPO  # noqa: E402
import replay as RP  # noqa: E402

TRUSTED_BASE = [
    'cbmc / goto-cc / goto-instrument 6.11.0: C front end (GCC mode, -std=gnu99), DFCC contract instrumentation, symbolic execution, bit-blasting',
    'SAT back end: kissat (external solver process fed by CBMC; the Kani 0.68 bundle build) for every obligation',
    'CPROVER library models of memcpy / memset / malloc',
    'spec/wire_spec.json and spec/vp_spec.h: the statement of intent (internally consistent; tied to the property wording by the meta-lemmas; not checked against the IEEE PDF)',
    'gcc -E for expanding loop-contract templates; python driver that names obligations and counts results',
]

GLOBAL_ASSUMPTIONS = [
    'machine arithmetic is bit-precise (nothing treated as mathematical integers); unsigned wrap-around is defined behaviour and not flagged',
    'verified text = unmodified /repo sources compiled by goto-cc instead of gcc (same -I include, -std=gnu99); object code and optimisation levels are not verified',
    'the identifier types of the five legacy wrapper pairs are compiled as unsigned int (guarded hook COVESA_OPEN1722_VERIF in the five headers): CBMC would otherwise compare enum operands as signed int where GCC compares them as unsigned int',
    'GCC facts shared by compiler and verifier: enums are 32 bit, uint8_t payload[0] has size 0, unsigned __int128 exists (spec only)',
]


# properties whose check deliberately claims less than a full proof of the statement
LEVEL_OVERRIDE = {
    'C16': ('other', 'Proof of the FOOTPRINT PREMISE only (every store of every function under contract lies inside its assigns clause = memory reachable '
                     'from its parameters; every static-lifetime object is const). The step from disjoint footprints to data-race freedom under every '
                     'schedule is the standard non-interference argument and is NOT mechanised; no schedule is explored.'),
    'C18': ('other', 'Proof for the receive paths of ALL SIX example listeners, each function enforced against its own contract with callees replaced: '
                     'acf-can-listener.c:new_packet (loop contract with variant; arbitrary datagram 0..1500 bytes, UDP/raw x TSCF/NTSCF x classic/FD symbolic); '
                     'aaf-listener.c and cvf-listener.c: new_packet and helpers; hello-world-listener.c and acf-vss-listener.c: the body of main()\'s receive loop '
                     '(loop contract: one iteration from an arbitrary state; printf string conversions checked by an executable model); crf-listener.c: both receive '
                     'functions and the media-clock queue operations (search loop closed by a loop contract with a variant). Obligations: memory safety, termination, '
                     'queues stay well formed, the listener gives up only if a system call failed. "other" because parts are bounded or assumed and say so: '
                     'mclk_dequeue_ts is enforced on queues of depth 1..2; the induction "queue abstraction holds after any number of loop iterations" is not mechanised; '
                     'fallback obligations (used only when the code was restructured) are bounded. NOT covered: timeout()/tx paths, poll loops, socket set-up, '
                     'reads of stale in-bounds bytes beyond the received length.'),
}


def load_known():
    p = os.path.join(VERIF, 'known_findings.json')
    if not os.path.exists(p):
        return {'findings': [], 'fixed': []}
    return json.load(open(p))


def build_jobs(tier):
    import gen_contracts as G
    import handjobs as H
    model = G.load_model(REPO)
    jobs = []
    jobs += G.all_generated_jobs(model, 'le')
    jobs += G.legacy_jobs(model, 'le')
    jobs += H.all_hand_jobs(model, tier)
    return model, jobs


def owners_of(job, pr):
    if pr.tag:
        return pr.tag.split(':')[0].split('+')
    o = job.owners
    if pr.cls in o:
        return o[pr.cls]
    if pr.cls in ('unwind',):
        return o.get('loop', o.get('*', []))
    return o.get('*', [])


def job_serves(job, pid):
    for v in job.owners.values():
        if pid in v:
            return True
    for t in job.clause_map.values():
        if pid in t.split(':')[0].split('+'):
            return True
    return False


def match_known(known, pid, job, pr):
    for f in known.get('findings', []):
        if f.get('property') != pid:
            continue
        if not re.search(f.get('obligation', '.*'), job.name):
            continue
        where = f.get('where')
        loc = '%s:%s' % (os.path.basename(pr.file or ''), pr.line)
        hay = '%s | %s | %s | %s' % (pr.name, pr.desc, loc, pr.tag or '')
        if where and not re.search(where, hay):
            continue
        return f
    return None


def write_replay(pid, job, res, prs, workroot):
    """Trace -> witness -> native replay; returns (path, reproduced)."""
    outdir = os.path.join(VERIF, 'replay', 'out', pid)
    os.makedirs(outdir, exist_ok=True)
    path = os.path.join(outdir, job.ident() + '.json')
    first = prs[0]
    wit, native, err = {}, None, ''
    reproduced, nout = False, ''
    try:        # a problem in trace extraction / replay generation must never hide the violation itself
        raw, err = vplib.trace_for(job, res, first.name)
        wit = RP.parse_witness(raw)
        native = RP.make_native(job, wit) if (wit or (job.replay and job.replay.get('kind') == 'null')) else None
        nout = 'no native replay template for this obligation' if native is None else ''
        if native is not None:
            reproduced, nout = RP.run_native(native, job)
    except Exception as e:
        nout = 'replay generation failed: %r' % (e,)
    doc = {
        'property': pid,
        'obligation': job.name,
        'config': job.config,
        'function': job.function,
        'failed_cbmc_properties': [{'id': p.name, 'class': p.cls, 'tag': p.tag, 'description': p.desc,
                                    'location': '%s:%s' % (p.file, p.line)} for p in prs],
        'verifier_commands': res.cmds,
        'verifier_trace_note': err,
        'witness': wit,
        'native_program': native,
        'native_sources': job.sources,
        'native_result': {'reproduced': reproduced, 'output': nout},
        'harness': job.src if len(job.src) < 200000 else job.src[:200000],
    }
    json.dump(doc, open(path, 'w'), indent=1)
    return path, reproduced


def cmd_check(pid, tier, seed):
    t0 = time.time()
    known = load_known()
    workroot = tempfile.mkdtemp(prefix='vp_%s_' % pid, dir=os.environ.get('VERIF_TMP', '/tmp'))
    atexit.register(lambda: shutil.rmtree(workroot, ignore_errors=True))
    try:
        model, jobs = build_jobs(tier)
    except Exception as e:
        print('UNDECIDED property=%s reason=inventory/generator: %s' % (pid, e))
        return 2
    sel = [j for j in jobs if job_serves(j, pid)]
    only = os.environ.get('VERIF_ONLY')          # development aid: run a subset, write no evidence
    if only:
        sel = [j for j in sel if re.search(only, j.name)]
    if not sel:
        print('UNDECIDED property=%s reason=no obligations registered' % pid)
        return 2
    names = [j.name + '/' + j.config for j in sel]
    if len(set(names)) != len(names):
        dup = sorted(set(n for n in names if names.count(n) > 1))[:5]
        print('UNDECIDED property=%s reason=duplicate obligation names %s' % (pid, dup))
        return 2
    verbose = os.environ.get('VERIF_VERBOSE')
    err = vplib.build_libs(workroot, sorted(set(j.config for j in sel)))
    if err:
        print('UNDECIDED property=%s reason=%s' % (pid, err[:600]))
        return 2

    def prog(d, n, r):
        if verbose or r.status != 'ok':
            sys.stderr.write('[%d/%d] %s (%s) %s %.1fs %s\n' % (d, n, r.job.name, r.job.config, r.status, r.wall, r.reason[:200].replace('\n', ' ')))
            sys.stderr.flush()
    results = vplib.run_jobs(sel, workroot, keep=True, progress=prog)

    obligations = discharged = 0
    known_failed = 0
    undecided, violations, knowns = [], [], []
    funcs, samples, bounded, warnings, assumptions = set(), [], [], set(), set(GLOBAL_ASSUMPTIONS)
    solver_s = 0.0
    loop_modes = []
    fallbacks, superseded = [], []
    named_ok = 0
    per_class = {}
    for r in results:
        j = r.job
        solver_s += r.solver_s
        for w in r.warnings:
            warnings.add(w)
        for a in j.assumptions:
            assumptions.add(a)
        if r.status == 'superseded':       # could not be built on this tree; a shared fallback obligation covers it
            superseded.append({'obligation': j.name, 'note': r.reason})
            continue
        if r.status == 'undecided':
            undecided.append(r)
            continue
        if r.fallback_note:
            fallbacks.append({'obligation': j.name, 'note': r.fallback_note, 'bounded': j.bounded})
        if j.function:
            funcs.add(j.function)
        if j.bounded:
            bounded.append({'obligation': j.name, 'bound': j.bounded})
        if j.loop_contracts:
            loop_modes.append({'obligation': j.name, 'loops': list(j.loop_contracts.keys()), 'mode': 'loop-contract (invariant + decreases)'})
        mine = [p for p in r.props if pid in owners_of(j, p)]
        obligations += len(mine)
        bad = [p for p in mine if p.status != 'SUCCESS']
        discharged += len(mine) - len(bad)
        for p in mine:
            per_class[p.cls] = per_class.get(p.cls, 0) + 1
        if not bad:
            named_ok += 1
            if len(samples) < 6 and mine:
                samples.append({'obligation': '%s/%s/%s' % (pid, j.name, j.config), 'function': j.function,
                                'enforce': j.enforce, 'replaced_by_contract': j.replace,
                                'cbmc_properties': len(mine),
                                'examples': [{'id': p.name, 'what': p.tag or p.desc[:120]} for p in
                                             ([p for p in mine if p.tag][:2] + mine[:2])[:3]]})
            continue
        kn = [(p, match_known(known, pid, j, p)) for p in bad]
        unknown = [p for p, f in kn if f is None]
        n_known = sum(1 for p, f in kn if f is not None)
        obligations -= n_known            # obligations that fail because of a recorded finding are listed, not claimed
        known_failed += n_known
        seenk = set()
        for p, f in kn:
            if f is not None and id(f) not in seenk:
                seenk.add(id(f))
                knowns.append((j, f))
        if unknown:
            violations.append((j, r, unknown))

    scan_info = None
    if pid == 'C16':
        examined, offenders, errors = vplib.static_scan(workroot)
        scan_info = {'static_lifetime_objects_examined': examined, 'mutable': offenders, 'errors': errors}
        obligations += len(examined)
        discharged += len(examined) - len(offenders)
        if errors or not examined:
            r = vplib.JobResult(vplib.Job('static-scan', '', []))
            r.reason = 'static scan could not run: %s' % (errors or 'no static-lifetime objects found (expected the descriptor tables)')
            undecided.append(r)
        if offenders:
            outdir = os.path.join(VERIF, 'replay', 'out', pid)
            os.makedirs(outdir, exist_ok=True)
            path = os.path.join(outdir, 'static_scan.json')
            json.dump({'property': pid, 'obligation': 'static-scan: every static-lifetime object of the library is const',
                       'failed': offenders, 'verifier_output': 'goto-instrument --show-symbol-table: mutable static-lifetime objects found',
                       'native_program': None}, open(path, 'w'), indent=1)
            sys.stderr.write('  failed obligation C16/static-scan: %s\n' % offenders[:3])
            scan_violation = 'VIOLATION property=%s replay=%s no-failing-input-found' % (pid, path)
        else:
            scan_violation = None
    for j, f in knowns:
        print('KNOWN-FINDING: property=%s %s [%s]' % (pid, f.get('what', ''), j.name))
    vio_lines = []
    for j, r, prs in violations:
        path, reproduced = write_replay(pid, j, r, prs, workroot)
        line = 'VIOLATION property=%s replay=%s' % (pid, path)
        sys.stderr.write('  failed obligation %s/%s/%s: %s\n' % (pid, j.name, j.config, '; '.join((p.name + ' ' + (p.tag or p.desc[:100])) for p in prs[:4])))
        if not reproduced:
            line += ' no-failing-input-found'
        vio_lines.append(line)
    if pid == 'C16' and scan_violation:
        vio_lines.append(scan_violation)
    for n in model.get('notes', []):
        sys.stderr.write('NOTE %s\n' % n)
    for r in undecided:
        sys.stderr.write('UNDECIDED obligation %s (%s): %s\n' % (r.job.name, r.job.config, r.reason[:600]))

    wall = time.time() - t0
    is_bounded_mix = bool(bounded)
    level = 'other' if is_bounded_mix else 'proof'
    override_txt = ''
    if pid in LEVEL_OVERRIDE:
        level, override_txt = LEVEL_OVERRIDE[pid]
    cov = {
        'obligations': obligations,
        'discharged': discharged,
        'checker_cmd': 'goto-cc <harness.c> <unmodified /repo sources> --function harness ; goto-instrument --dfcc harness --enforce-contract F[/C] '
                       '[--replace-call-with-contract G[/C]]... [--loop-contracts-file L --apply-loop-contracts] ; cbmc ' + ' '.join(vplib.CBMC_CHECKS),
        'trusted_base': TRUSTED_BASE,
        'named_obligations': len(sel),
        'named_obligations_discharged': named_ok,
        'named_obligations_undecided': len(undecided),
        'functions_under_contract': sorted(funcs),
        'functions_under_contract_count': len(funcs),
        'obligations_by_class': per_class,
        'back_end': 'CBMC 6.11.0 bit-blasting + kissat (--external-sat-solver)',
        'solver_seconds': round(solver_s, 1),
        'cpu_seconds_all_jobs': round(sum(r.wall for r in results), 1),
        'configurations': sorted(set(j.config for j in sel)),
        'loop_contracts': loop_modes,
        'bounded_stand_ins': bounded,
        'fallback_obligations_used': fallbacks,
        'obligations_superseded_by_fallback': superseded,
        'vacuity_guard': 'every harness ends in a reachability canary that must be reported FAILED; %d canaries checked' % sum(1 for r in results if r.canary_ok),
        'tool_warnings': sorted(warnings)[:20],
        'api_not_in_oracle': list(model.get('notes', [])),
        'samples': samples,
        'known_findings_listed': [f.get('what') for _, f in knowns],
        'obligations_failing_due_to_known_findings': known_failed,
        'static_scan': scan_info,
        'explanation': ((override_txt + ' ' if override_txt else '') + 'Contract-based deductive verification of the real C code with CBMC code contracts; '
                        'each named obligation = one function enforced against one contract with callees replaced by their contracts. '
                        + ('Some obligations are BOUNDED stand-ins (listed under bounded_stand_ins) and are not counted as proof.' if is_bounded_mix else
                           'All loops on the verified paths are closed by loop contracts; no unwinding bound is used.')),
    }
    ev = {'property_id': pid, 'tier': tier, 'seed': seed, 'level': level, 'coverage': cov,
          'assumptions': sorted(assumptions), 'wall_s': round(wall, 1), 'violations': len(vio_lines)}
    evdir = os.environ.get('VERIF_EVIDENCE_DIR') or os.path.join(VERIF, 'evidence')    # (redirected only by the seeded-change tests)
    os.makedirs(evdir, exist_ok=True)
    if not only:
        json.dump(ev, open(os.path.join(evdir, pid + '.json'), 'w'), indent=1)
    for l in vio_lines:
        print(l)
    print('property=%s tier=%s named_obligations=%d cbmc_properties=%d discharged=%d undecided=%d known=%d violations=%d wall=%.0fs'
          % (pid, tier, len(sel), obligations, discharged, len(undecided), len(knowns), len(vio_lines), wall))
    if vio_lines:
        return 1
    if undecided:
        print('UNDECIDED property=%s (%d obligations could not be decided; see stderr)' % (pid, len(undecided)))
        return 2
    return 0


def cmd_replay(path):
    doc = json.load(open(path))
    print('obligation: %s/%s (%s)' % (doc['property'], doc['obligation'], doc.get('config')))
    for p in doc['failed_cbmc_properties']:
        print('  failed: %s  %s  %s' % (p['id'], p.get('tag') or p['description'][:100], p['location']))
    if not doc.get('native_program'):
        print('no native replay program (no-failing-input-found); verifier output is in the file')
        return 0
    j = vplib.Job(doc['obligation'], '', doc['native_sources'])
    rep, out = RP.run_native(doc['native_program'], j)
    print(out)
    print('REPRODUCED on the real code' if rep else 'not reproduced natively')
    return 1 if rep else 0


def main():
    ap = argparse.ArgumentParser()
    ap.add_argument('cmd', choices=['check', 'replay', 'list', 'env'])
    ap.add_argument('arg', nargs='?')
    ap.add_argument('--tier', default=os.environ.get('VERIF_TIER', 'quick'))
    a = ap.parse_args()
    seed = int(os.environ.get('VERIF_SEED', '0') or 0)
    if a.cmd == 'check':
        sys.exit(cmd_check(a.arg, a.tier if a.tier in ('quick', 'thorough') else 'quick', seed))
    if a.cmd == 'replay':
        sys.exit(cmd_replay(a.arg))
    if a.cmd == 'env':
        ok = True
        for t in ('cbmc', 'goto-cc', 'goto-instrument', 'kissat', 'gcc'):
            p = shutil.which(t)
            print(t, p)
            ok = ok and bool(p)
        sys.exit(0 if ok else 1)
    if a.cmd == 'list':
        model, jobs = build_jobs(a.tier)
        from collections import Counter
        if a.arg:
            sel = [j for j in jobs if job_serves(j, a.arg)]
            print(len(sel), 'obligations for', a.arg, Counter(j.kind for j in sel))
        else:
            print(len(jobs), 'obligations', Counter(j.kind for j in jobs))


if __name__ == '__main__':
    main()
