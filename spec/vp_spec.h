/*
 * vp_spec.h - reference semantics for Open1722 verification.
 *
 * Everything here is PURE, LOOP-FREE C (loops are macro-unrolled) so that it can be
 *   (a) called from __CPROVER_requires/__CPROVER_ensures clauses,
 *   (b) compiled natively by gcc for the replay programs.
 *
 * Conventions: a PDU is a string of bits; bit 0 is the MSB of byte 0; a field is the
 * bit range [s, s+n) read MSB first ("network order").  Nothing in this file looks at
 * the repository's descriptor tables.
 */
#ifndef VP_SPEC_H
#define VP_SPEC_H

#include <stdint.h>
#include <stddef.h>

typedef unsigned __int128 vp_u128;
/* built-in type names for the macros below: the loop-contract predicate parser of
 * goto-instrument knows no typedefs */
#define VP_T128 unsigned __int128
#define VP_T64 unsigned long long
#define VP_T8 unsigned char

#define VP_MASK64(n) ((n) >= 64 ? ~(unsigned long long)0 : (((unsigned long long)1 << (n)) - 1))

/* ------------------------------------------------------------------------------------
 * Byte-form oracle (used by every per-format contract)
 * ---------------------------------------------------------------------------------- */

/* bit b of the buffer (0 or 1) */
static inline unsigned vp_bit(const uint8_t *p, uint32_t b)
{
    return (unsigned)(p[b >> 3] >> (7u - (b & 7u))) & 1u;
}

/* bits [s, s+n) of p, MSB first, n <= 64.  Reads only bytes s/8 .. (s+n-1)/8. */
static inline uint64_t vp_get_bits(const uint8_t *p, uint32_t s, uint32_t n)
{
    if (n == 0 || n > 64)
        return 0;
    uint32_t fb = s >> 3;
    uint32_t lb = (s + n - 1) >> 3;
    uint32_t nb = lb - fb + 1;          /* 1..9 */
    vp_u128 w = 0;
#define VP_GB_STEP(k) if ((k) < nb) w = (w << 8) | p[fb + (k)];
    VP_GB_STEP(0) VP_GB_STEP(1) VP_GB_STEP(2) VP_GB_STEP(3) VP_GB_STEP(4)
    VP_GB_STEP(5) VP_GB_STEP(6) VP_GB_STEP(7) VP_GB_STEP(8)
#undef VP_GB_STEP
    uint32_t rshift = nb * 8 - ((s & 7u) + n);
    w >>= rshift;
    return (uint64_t)w & VP_MASK64(n);
}

/* value of byte k of a buffer after (v mod 2^n) has been stored MSB-first into bits
 * [s, s+n); `old` is the byte's previous value.  n <= 64. */
static inline uint8_t vp_put_byte(uint8_t old, uint32_t k, uint32_t s, uint32_t n, uint64_t v)
{
    uint8_t r = old;
    uint32_t b0 = 8u * k;
    if (n > 64)
        return old;
#define VP_PB_STEP(j)                                                         \
    if (b0 + (j) >= s && b0 + (j) < s + n) {                                  \
        unsigned bit = (unsigned)((v >> (n - 1u - (b0 + (j) - s))) & 1u);     \
        r = (uint8_t)((r & ~(0x80u >> (j))) | (bit ? (0x80u >> (j)) : 0u));   \
    }
    VP_PB_STEP(0) VP_PB_STEP(1) VP_PB_STEP(2) VP_PB_STEP(3)
    VP_PB_STEP(4) VP_PB_STEP(5) VP_PB_STEP(6) VP_PB_STEP(7)
#undef VP_PB_STEP
    return r;
}

/* ------------------------------------------------------------------------------------
 * Quadlet-window form (used by the contracts of the two generic routines; call-free
 * macros because CBMC loop invariants and assigns clauses may not contain calls).
 *
 * For a descriptor (q, off, bits) the touched quadlets are q .. q+NQ-1,
 *   NQ = bits ? ceil((off+bits)/32) : 0   (0..3)
 * and the window W is their 32*NQ bits left-aligned in a 96-bit big-endian number.
 * ---------------------------------------------------------------------------------- */
/* ternary-free: CBMC rejects ?: inside assigns-clause targets */
#define VP_NQ(off, bits) ((((unsigned)(off) + (unsigned)(bits) + 31u) / 32u) * (unsigned)((bits) != 0))

/* index of window byte i, clamped into the window so it is always in range */
#define VP_WIDX(q, nq, i) (4u * (unsigned)(q) + (((i) < 4u * (nq)) ? (unsigned)(i) : 0u))

#define VP_WB(p, q, nq, i) \
    ((VP_T128)(((i) < 4u * (nq)) ? (p)[VP_WIDX(q, nq, i)] : 0) << (8 * (11 - (i))))

#define VP_WINDOW(p, q, nq)                                                            \
    (VP_WB(p, q, nq, 0) | VP_WB(p, q, nq, 1) | VP_WB(p, q, nq, 2) | VP_WB(p, q, nq, 3) |   \
     VP_WB(p, q, nq, 4) | VP_WB(p, q, nq, 5) | VP_WB(p, q, nq, 6) | VP_WB(p, q, nq, 7) |   \
     VP_WB(p, q, nq, 8) | VP_WB(p, q, nq, 9) | VP_WB(p, q, nq, 10) | VP_WB(p, q, nq, 11))

#define VP_MASK128(n) ((n) >= 128 ? ~(VP_T128)0 : ((((VP_T128)1) << (n)) - 1))

/* m bits starting at window bit `off` (m <= 64, off+m <= 96), as a number */
#define VP_WGET(W, off, m) \
    ((VP_T64)(((W) >> (96u - (unsigned)(off) - (unsigned)(m))) & VP_MASK128(m)))

/* window with m bits at `off` replaced by (x mod 2^m) */
#define VP_WPUT(W, off, m, x)                                                        \
    (((W) & ~(VP_MASK128(m) << (96u - (unsigned)(off) - (unsigned)(m)))) |           \
     ((((VP_T128)(x)) & VP_MASK128(m)) << (96u - (unsigned)(off) - (unsigned)(m))))

/* byte i (0..11) of a window */
#define VP_WBYTE(W, i) ((VP_T8)((W) >> (8 * (11 - (i)))))

/* ------------------------------------------------------------------------------------
 * Integers in wire order
 * ---------------------------------------------------------------------------------- */
static inline uint16_t vp_be16(const uint8_t *p) { return (uint16_t)(((unsigned)p[0] << 8) | p[1]); }
static inline uint32_t vp_be32(const uint8_t *p)
{
    return ((uint32_t)p[0] << 24) | ((uint32_t)p[1] << 16) | ((uint32_t)p[2] << 8) | p[3];
}
static inline uint64_t vp_be64(const uint8_t *p)
{
    return ((uint64_t)vp_be32(p) << 32) | vp_be32(p + 4);
}
/* byte k (0 = most significant) of the w-byte big-endian image of x */
static inline uint8_t vp_be_byte(uint64_t x, unsigned w, unsigned k)
{
    return (uint8_t)(x >> (8u * (w - 1u - k)));
}
/* byte k (0 = least significant) of x: little-endian image */
static inline uint8_t vp_le_byte(uint64_t x, unsigned k)
{
    return (uint8_t)(x >> (8u * k));
}

/* ------------------------------------------------------------------------------------
 * Memory images of scalar objects (C13): the bytes an object occupies in memory, in
 * address order, compared with the big-/little-endian byte sequence of a value.
 * W = 2, 4 or 8; the object is passed by value as uint64_t-wide storage of its own type.
 * ---------------------------------------------------------------------------------- */
static inline int vp_img16_is_be(uint16_t obj, uint16_t val)
{ const uint8_t *p = (const uint8_t *)&obj; return p[0] == (uint8_t)(val >> 8) && p[1] == (uint8_t)val; }
static inline int vp_img16_is_le(uint16_t obj, uint16_t val)
{ const uint8_t *p = (const uint8_t *)&obj; return p[1] == (uint8_t)(val >> 8) && p[0] == (uint8_t)val; }
static inline int vp_img32_is_be(uint32_t obj, uint32_t val)
{ const uint8_t *p = (const uint8_t *)&obj;
  return p[0] == (uint8_t)(val >> 24) && p[1] == (uint8_t)(val >> 16) && p[2] == (uint8_t)(val >> 8) && p[3] == (uint8_t)val; }
static inline int vp_img32_is_le(uint32_t obj, uint32_t val)
{ const uint8_t *p = (const uint8_t *)&obj;
  return p[3] == (uint8_t)(val >> 24) && p[2] == (uint8_t)(val >> 16) && p[1] == (uint8_t)(val >> 8) && p[0] == (uint8_t)val; }
static inline int vp_img64_is_be(uint64_t obj, uint64_t val)
{ const uint8_t *p = (const uint8_t *)&obj;
  return p[0] == (uint8_t)(val >> 56) && p[1] == (uint8_t)(val >> 48) && p[2] == (uint8_t)(val >> 40) && p[3] == (uint8_t)(val >> 32) &&
         p[4] == (uint8_t)(val >> 24) && p[5] == (uint8_t)(val >> 16) && p[6] == (uint8_t)(val >> 8) && p[7] == (uint8_t)val; }
static inline int vp_img64_is_le(uint64_t obj, uint64_t val)
{ const uint8_t *p = (const uint8_t *)&obj;
  return p[7] == (uint8_t)(val >> 56) && p[6] == (uint8_t)(val >> 48) && p[5] == (uint8_t)(val >> 40) && p[4] == (uint8_t)(val >> 32) &&
         p[3] == (uint8_t)(val >> 24) && p[2] == (uint8_t)(val >> 16) && p[1] == (uint8_t)(val >> 8) && p[0] == (uint8_t)val; }
/* byte reversal, defined bytewise */
static inline uint16_t vp_rev16(uint16_t x) { return (uint16_t)((x << 8) | (x >> 8)); }
static inline uint32_t vp_rev32(uint32_t x)
{ return ((uint32_t)vp_rev16((uint16_t)x) << 16) | vp_rev16((uint16_t)(x >> 16)); }
static inline uint64_t vp_rev64(uint64_t x)
{ return ((uint64_t)vp_rev32((uint32_t)x) << 32) | vp_rev32((uint32_t)(x >> 32)); }

/* IEEE-754 bit patterns (floats are compared as integers: bit-exact) */
static inline uint32_t vp_f32_bits(float f) { union { float f; uint32_t u; } x; x.f = f; return x.u; }
static inline uint64_t vp_f64_bits(double d) { union { double d; uint64_t u; } x; x.d = d; return x.u; }

#endif /* VP_SPEC_H */
