#!/usr/bin/env python3
"""Development aid: run the obligations whose name matches a regex, keep the work directories.
   devjob.py <regex> [tier] [workroot]"""
import os, re, sys
HERE = os.path.dirname(os.path.abspath(__file__))
sys.path.insert(0, HERE); sys.path.insert(0, os.path.join(os.path.dirname(HERE), 'gen'))
import vplib, vp
rx = sys.argv[1]; tier = sys.argv[2] if len(sys.argv) > 2 else 'quick'
root = sys.argv[3] if len(sys.argv) > 3 else '/tmp/devjob'
os.makedirs(root, exist_ok=True)
model, jobs = vp.build_jobs(tier)
sel = [j for j in jobs if re.search(rx, j.name + '/' + j.config)]
print(len(sel), 'jobs')
if os.environ.get('DEV_LIB', '1') == '1':
    print(vplib.build_libs(root, sorted(set(j.config for j in sel))))
for r in vplib.run_jobs(sel, root, keep=True):
    print(r.job.name, r.job.config, r.status, '%.1fs' % r.wall, r.reason[:300], len(r.props), 'props', 'canary', r.canary_ok)
    for p in r.failed()[:12]:
        print('   FAILED', p.name, p.cls, p.tag, p.desc[:110], p.file and os.path.basename(p.file), p.line)
    for c in r.cmds:
        print('   ', c['rc'], c['s'], c['cmd'][:160])
