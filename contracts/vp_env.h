/* Harness environment: nondeterministic inputs and witness ghosts.
 *
 * Witness ghosts (vp_w*) are nondeterministic globals set by the harness before the
 * call; preconditions bind the symbolic inputs to them (vp_w[k] == pdu->header[k]),
 * so a counterexample trace carries the concrete failing input, from which the
 * driver builds the native replay program.  No contract assigns them. */
#ifndef VP_ENV_H
#define VP_ENV_H
#include <stdint.h>
#include <stddef.h>

_Bool nondet_bool(void);
uint8_t nondet_u8(void);
uint16_t nondet_u16(void);
uint32_t nondet_u32(void);
uint64_t nondet_u64(void);
unsigned nondet_uint(void);
int nondet_int(void);
size_t nondet_size(void);

#define VP_WMAX 40
uint8_t vp_w[VP_WMAX];     /* input header bytes */
uint64_t vp_wv;            /* value argument */
unsigned vp_wf;            /* field identifier argument */
unsigned vp_wx;            /* extra scalar (lengths, slack) */

/* Field identifiers of enum type that take part in a comparison INSIDE the code under
 * verification (the five legacy wrapper pairs): CBMC's C front end promotes an enum operand
 * to signed int, GCC (enum without negative enumerators) to unsigned int.  The guarded hook
 * in the five headers (COVESA_OPEN1722_VERIF) makes the identifier type the unsigned int GCC
 * uses, so ALL 2^32 identifiers are covered; no restriction is left. */
#define VP_ENUM_ID_OK(field) 1

/* Witness bindings in hand-written contracts are active only when the contract is the
 * one being enforced (-DVP_BINDINGS); in replace mode a requires clause is an assertion. */
#ifdef VP_BINDINGS
#define VP_WBIND(c) (c)
#else
#define VP_WBIND(c) 1
#endif

#define VP_CANARY() __CPROVER_assert(0, "canary: harness end must be reachable")

#endif
