#!/usr/bin/env python3
"""Core of the verification driver: jobs (= named obligations), the goto-cc ->
goto-instrument (DFCC) -> cbmc pipeline, result parsing, parallel execution."""
import concurrent.futures
import json
import os
import re
import resource
import shutil
import subprocess
import threading
import time

VERIF = os.path.dirname(os.path.dirname(os.path.abspath(__file__)))
REPO = os.environ.get('VERIF_REPO', '/repo')

CBMC_CHECKS = ['--bounds-check', '--pointer-check', '--pointer-overflow-check',
               '--signed-overflow-check', '--undefined-shift-check', '--div-by-zero-check']

CONFIGS = {
    'le': [],
    # big-endian host: big-endian memory model + the big-endian branch of Byteorder.h
    'be': ['--big-endian', '-U__BYTE_ORDER__', '-D__BYTE_ORDER__=__ORDER_BIG_ENDIAN__'],
}

MEM_LIMIT_KB = 24 * 1024 * 1024
DEFAULT_UNWIND = 64

# config -> path of the whole library (every /repo/src/**/*.c, unmodified) precompiled into one goto binary for
# this run; jobs that name library sources link against it, so a new cross-file call inside the library resolves
LIBS = {}


def build_libs(workroot, configs):
    """Compile all library sources once per configuration. Returns error text or None."""
    files = []
    for root, _, fs in os.walk(os.path.join(REPO, 'src')):
        for f in sorted(fs):
            if f.endswith('.c'):
                files.append(os.path.join(root, f))
    if not files:
        return 'no library sources under %s/src' % REPO
    for cfg in configs:
        out = os.path.join(workroot, 'lib_%s.gb' % cfg)
        log = []
        rc, o, e = _run(['goto-cc', '-std=gnu99', '-DCOVESA_OPEN1722_VERIF'] + CONFIGS[cfg] + ['-I' + os.path.join(REPO, 'include')] + sorted(files) + ['-o', out], workroot, 600, log)
        if rc != 0 or not os.path.exists(out):
            return 'library does not compile (%s): %s' % (cfg, (e or o)[-1200:])
        LIBS[cfg] = out
    return None


class Job:
    """One named obligation: a function enforced against one contract under one
    configuration, with the listed callees replaced by their contracts."""

    def __init__(self, name, src, sources, enforce=None, replace=(), entry='harness',
                 config='le', loop_contracts=None, owners=None, clause_map=None,
                 timeout=600, solver=None, extra_cbmc=(), extra_cc=(), canary=True,
                 function=None, kind='', replay=None, bounded=None, includes=(), ignore_funcs=(),
                 assumptions=(), unwindset=None, no_dfcc=False, obj_bits=None, chunk=None, chunk_par=1, unwind=None, fallback=None, no_unwinding_assertions=False, probes=(), ignore_unwind=False):
        self.name = name
        self.src = src                  # text of the harness translation unit
        self.sources = list(sources)    # repository sources (relative to REPO) compiled in unmodified
        self.enforce = enforce          # "f" or "f/contract"
        self.replace = list(replace)
        self.entry = entry
        self.config = config
        self.loop_contracts = loop_contracts  # dict: func -> {'template':..., 'symbols':[...]}
        self.owners = owners or {}      # class -> [property ids]; classes: 'post:<tag>', 'safety', 'assigns', 'loop', 'assert:<tag>'
        self.clause_map = clause_map or {}   # line number in harness TU -> tag
        self.timeout = timeout
        self.solver = solver            # None/'kissat' (default) | 'minisat' | 'cadical'
        self.extra_cbmc = list(extra_cbmc)
        self.extra_cc = list(extra_cc)
        self.canary = canary
        self.function = function        # the real function under contract
        self.kind = kind
        self.replay = replay            # info for native replay generation
        self.bounded = bounded          # None or text describing the bound (never counted as proof)
        self.includes = list(includes)
        self.ignore_funcs = set(ignore_funcs)
        self.assumptions = list(assumptions)
        self.unwindset = unwindset
        self.no_dfcc = no_dfcc          # plain harness with assertions only (pure spec lemmas)
        self.obj_bits = obj_bits
        self.chunk_par = chunk_par
        self.unwind = unwind            # {function: bound}: BOUNDED stand-in, resolved to --unwindset on the instrumented binary
        self.chunk = chunk              # solve the CBMC properties in groups of this size with --slice-formula
        self.fallback = fallback        # Job (or callable returning one) to run when this obligation cannot be BUILT on the current tree
        self.no_unwinding_assertions = no_unwinding_assertions   # bounded stand-in that deliberately cuts a non-terminating loop
        self.ignore_unwind = ignore_unwind   # boundary probe: hitting the unwinding bound gives no information and is not a result
        self.probes = list(probes)      # extra bounded runs of a FALLBACK: only their real (non-unwinding) failures count
        self.fallback_of = None         # set on the fallback job actually run: (name of the primary, reason)

    def ident(self):
        return re.sub(r'[^A-Za-z0-9_.-]', '_', self.name + '__' + self.config)


class PropResult:
    __slots__ = ('name', 'desc', 'status', 'file', 'line', 'func', 'cls', 'tag')

    def __init__(self, name, desc, status, file, line, func):
        self.name, self.desc, self.status = name, desc, status
        self.file, self.line, self.func = file, line, func
        self.cls = None
        self.tag = None


class JobResult:
    def __init__(self, job):
        self.job = job
        self.status = 'undecided'       # 'ok' | 'failed' | 'undecided'
        self.reason = ''
        self.props = []                 # list of PropResult (canary excluded)
        self.canary_ok = None
        self.wall = 0.0
        self.solver_s = 0.0
        self.warnings = []
        self.workdir = None
        self.cmds = []
        self.loop_contract_mode = None
        self.used_lib = False
        self.fallback_note = None

    def failed(self):
        return [p for p in self.props if p.status == 'FAILURE']


def _limits():
    resource.setrlimit(resource.RLIMIT_AS, (MEM_LIMIT_KB * 1024, MEM_LIMIT_KB * 1024))


def _run(cmd, cwd, timeout, log, stdin=None):
    t0 = time.time()
    try:
        p = subprocess.run(cmd, cwd=cwd, stdout=subprocess.PIPE, stderr=subprocess.PIPE, text=True,
                           timeout=timeout, preexec_fn=_limits, input=stdin)
        rc, out, err = p.returncode, p.stdout, p.stderr
    except subprocess.TimeoutExpired as e:
        rc, out, err = -999, (e.stdout or ''), 'TIMEOUT after %ss' % timeout
        if isinstance(out, bytes):
            out = out.decode('utf-8', 'replace')
    log.append({'cmd': ' '.join(cmd), 'rc': rc, 's': round(time.time() - t0, 2)})
    return rc, out, err


def classify(pr, job, harness_file):
    """Map one CBMC property to a class and (for contract clauses of the harness TU) a tag."""
    n, d = pr.name, pr.desc
    if 'canary' in d:
        return 'canary', None
    in_harness = pr.file is not None and os.path.basename(pr.file) == os.path.basename(harness_file)
    if in_harness:
        tag = job.clause_map.get(pr.line)
    elif pr.file is not None:
        tag = job.clause_map.get('%s:%s' % (os.path.basename(pr.file), pr.line))
    else:
        tag = None
    if 'undefined function should be unreachable' in d:
        return 'undefined', None
    if '.postcondition.' in n or d.startswith('Check ensures clause'):
        return 'post', tag
    if '.assigns.' in n or 'is assignable' in d or 'frame condition' in d.lower():
        return 'assigns', None
    if 'loop_invariant' in n or 'loop_decreases' in n or 'loop_assigns' in n or 'loop invariant' in d or 'decreases clause' in d or 'loop_step_unwinding' in n:
        return 'loop', None
    if '.unwind.' in n or 'unwinding assertion' in d:
        return 'unwind', None
    if '.assertion.' in n:
        return 'assert', tag
    if '.precondition.' in n or d.startswith('Check requires clause'):
        return 'safety', tag
    return 'safety', None


def scan_tags(path):
    """/*TAG Cxx:what*/ comments in a hand-written contract header -> {'file:line': tag}."""
    out = {}
    base = os.path.basename(path)
    for i, l in enumerate(open(path).read().split('\n'), 1):
        m = re.search(r'/\*TAG\s+(\S+?)\s*\*/', l)
        if m:
            out['%s:%d' % (base, i)] = m.group(1)
    return out


def expand_loop_contract(template, incdirs):
    txt = template
    cmd = ['gcc', '-E', '-P', '-x', 'c'] + ['-I' + d for d in incdirs] + ['-']
    out = subprocess.run(cmd, input=txt, capture_output=True, text=True, check=True).stdout
    d = {}
    for l in out.splitlines():
        m = re.match(r'^(INV|DEC|ASG):\s*(.*)$', l)
        if m:
            d[m.group(1)] = m.group(2).strip()
    return d


def symbol_map(symtab_text, func, names, line_range=None):
    """Resolve base names of locals/parameters of `func` in the goto symbol table.  When a
    base name is declared several times (one `i` per loop) the declaration inside
    `line_range` is chosen."""
    entries = []
    for blk in symtab_text.split('\n\n'):
        m = re.search(r'^Symbol\.*: (\S+)$', blk, re.M)
        if not m:
            continue
        lm = re.search(r'^Location\.*: .*line (\d+)', blk, re.M)
        entries.append((m.group(1), int(lm.group(1)) if lm else None))
    res = []
    for n in names:
        if n.startswith('::'):          # a global (harness ghost): '::name'
            res.append('%s,%s' % (n[2:], n[2:]))
            continue
        c = [(s, l) for s, l in entries if s.startswith(func + '::') and s.split('::')[-1] == n]
        if len(c) > 1 and line_range:
            c = [(s, l) for s, l in c if l is not None and line_range[0] <= l <= line_range[1]]
        if len(c) != 1:
            return None, 'local %r of %s not found uniquely (%d candidates)' % (n, func, len(c))
        res.append('%s,%s' % (n, c[0][0]))
    return ';'.join(res), None


def all_locals(symtab_text, func, before_line=None):
    """Every block-scoped local of `func` in the goto symbol table -> (assigns targets, symbol map entries).
    Used for loops whose contract claims nothing about the locals (invariant `true`): the frame is then
    "all locals of the function", computed from the tree as it is, so adding or renaming a local cannot
    break the obligation."""
    targets, smap = [], []
    n = 0
    for blk in symtab_text.split('\n\n'):
        m = re.search(r'^Symbol\.*: (\S+)$', blk, re.M)
        t = re.search(r'^Type\.*: (.*)$', blk, re.M)
        fl = re.search(r'^Flags\.*: (.*)$', blk, re.M)
        if not (m and t and fl):
            continue
        sym, ty, flags = m.group(1), t.group(1), fl.group(1)
        if not re.match(r'^%s::\d+(::\d+)*::[A-Za-z_]\w*$' % re.escape(func), sym):
            continue
        if 'lvalue' not in flags or 'parameter' in flags:
            continue
        lm = re.search(r'^Location\.*: .*line (\d+)', blk, re.M)
        if before_line is not None and lm and int(lm.group(1)) >= before_line:
            continue            # declared inside the loop body: not alive at the loop head, assignable anyway
        alias = 'vp_loc%d' % n
        n += 1
        smap.append('%s,%s' % (alias, sym))
        targets.append('__CPROVER_object_whole(%s)' % alias if '[' in ty else alias)
    return targets, smap


def locate_case_arm(src_path, func, label):
    """Line range (L1, L2) of the `case <label>:` arm inside function `func` of a C source."""
    lines = open(src_path).read().split('\n')
    start = None
    for i, l in enumerate(lines, 1):
        if re.match(r'^\w[\w\s\*]*\b%s\s*\(' % re.escape(func), l):
            start = i
            break
    if start is None:
        return None
    l1 = None
    for i in range(start, len(lines) + 1):
        l = lines[i - 1]
        if l1 is None:
            if re.search(r'\bcase\s+%s\s*:' % re.escape(label), l):
                l1 = i
        elif re.search(r'\bcase\s+\w+\s*:|\bdefault\s*:', l):
            return (l1, i - 1)
        if i > start and re.match(r'^}', l):
            break
    return None


def loops_of(show_loops_text, func):
    """[(loop_number, line)] of the loops of `func` from goto-instrument --show-loops."""
    out = []
    for m in re.finditer(r'^Loop (\S+)\.(\d+):\n\s+file (\S+) line (\d+) function (\S+)', show_loops_text, re.M):
        if m.group(1) == func:
            out.append((int(m.group(2)), int(m.group(4))))
    return out


# Reasons that mean "the obligation could not be built on this tree" (the code was restructured: a helper changed its
# signature, a loop was rewritten so that the loop contract no longer attaches).  They say nothing about the property;
# the obligation's fallback (a coarser or bounded formulation that does not depend on those details) is run instead.
STRUCTURAL = ('goto-cc failed', 'loop contract for', 'loop of ', 'bounded stand-in: loops of', 'goto-instrument failed',
              'loop contract silently dropped')
_FB_DONE = {}
RESOURCE = ('solver failure', 'Out of memory', 'out-of-memory', 'unexpected response', 'produced no result list', 'output unparsable',
            'std::bad_alloc', 'MemoryError')
_FB_LOCK = threading.Lock()


# obligations that are solved in chunks are the memory-hungry ones (8-byte VSS array encoders: every chunk is a multi-GB CBMC
# process): at most two of them run at a time, otherwise the kernel kills CBMC processes (rc -9) while 16 obligations run side by side
_HEAVY = threading.Semaphore(2)


def run_job(job, workroot, keep=False):
    if job.chunk:
        with _HEAVY:
            return _run_job_outer(job, workroot, keep)
    return _run_job_outer(job, workroot, keep)


def _run_job_outer(job, workroot, keep=False):
    if os.environ.get('VERIF_FORCE_FALLBACK') and job.fallback is not None:
        res = JobResult(job)          # self-test of the fallbacks on a tree where the primaries can be built
        res.reason = 'goto-cc failed: (forced by VERIF_FORCE_FALLBACK)'
    else:
        res = _run_job_retries(job, workroot, keep)
    if res.status == 'undecided' and job.fallback is not None and any(res.reason.startswith(x) for x in STRUCTURAL):
        fj = job.fallback() if callable(job.fallback) else job.fallback
        key = fj.name + '/' + fj.config
        with _FB_LOCK:
            first = key not in _FB_DONE
            _FB_DONE[key] = True
        if not first:           # several obligations share one fallback (helpers of one example): it runs once
            r = JobResult(job)
            r.status = 'superseded'
            r.reason = 'cannot be built on this tree (%s); covered by fallback obligation %s' % (res.reason[:120].replace('\n', ' '), fj.name)
            return r
        fj.fallback_of = (job.name, res.reason[:300].replace('\n', ' '))
        fres = _run_job_retries(fj, workroot, keep)
        fres.fallback_note = 'fallback for %s: %s' % (job.name, res.reason[:200].replace('\n', ' '))
        if fres.status == 'failed' and fj.bounded:
            # an unwinding assertion that fails in a bounded fallback means "bound too small", not a violation
            real = [p for p in fres.failed() if p.cls != 'unwind']
            if not real:
                fres.status = 'undecided'
                fres.reason = 'bounded fallback inconclusive: unwinding bound exceeded (%s)' % fres.fallback_note
        # boundary probes of a bounded fallback (e.g. values at the top of the 16-bit length range with a short unwinding): a failure
        # found there lies on a complete path and is a real counterexample; hitting the unwinding bound gives no information
        if fres.status == 'ok':
            for pj in fj.probes:
                pres = _run_job_retries(pj, workroot, keep)
                real = [p for p in pres.failed() if p.cls != 'unwind'] if pres.status == 'failed' else []
                if real:
                    pres.props = [p for p in pres.props if p.cls != 'unwind']
                    pres.fallback_note = 'boundary probe of the fallback for %s' % job.name
                    return pres
                fres.warnings.append('boundary probe %s: %s' % (pj.name, 'no counterexample within the unwinding bound' if pres.status in ('failed', 'ok') else 'undecided (%s)' % pres.reason[:80]))
        return fres
    return res


def _run_job_retries(job, workroot, keep=False):
    """Runs one obligation; if CBMC runs out of object identifiers (default 2^8 objects) the
    run is repeated with more object bits."""
    res = _run_job_once(job, workroot, keep)
    if res.status == 'undecided' and res.used_lib and ('failed' in res.reason or 'Invariant' in res.reason or 'no result list' in res.reason):
        # the whole-library binary can trip the tools (Crf.h and Cvf.h both define struct Avtp_Cvf):
        # fall back to linking only the sources the obligation names
        job.no_lib = True
        res = _run_job_once(job, workroot, keep)
    tries = 0
    while res.status == 'undecided' and 'too many addressed objects' in res.reason and tries < 2:
        tries += 1
        job.obj_bits = 12 if (job.obj_bits or 8) < 12 else 16
        res = _run_job_once(job, workroot, keep)
    return res


def _run_job_once(job, workroot, keep=False):
    res = JobResult(job)
    t0 = time.time()
    wd = os.path.join(workroot, job.ident())
    os.makedirs(wd, exist_ok=True)
    res.workdir = wd
    hfile = os.path.join(wd, 'harness.c')
    with open(hfile, 'w') as f:
        f.write(job.src)
    incs = ['-I' + os.path.join(REPO, 'include'), '-I' + os.path.join(VERIF, 'spec'),
            '-I' + os.path.join(VERIF, 'contracts'), '-I' + wd] + ['-I' + i for i in job.includes]
    srcs = [os.path.join(REPO, s) if not os.path.isabs(s) else s for s in job.sources]
    res.used_lib = False
    if job.sources and all(x.startswith('src/') for x in job.sources) and LIBS.get(job.config) and not getattr(job, 'no_lib', False):
        srcs = [LIBS[job.config]]
        res.used_lib = True
    for s in srcs:
        if not os.path.exists(s):
            res.reason = 'source file missing: %s' % s
            return res
    a_gb = os.path.join(wd, 'a.gb')
    cmd = ['goto-cc', '-std=gnu99', '-DCOVESA_OPEN1722_VERIF'] + CONFIGS[job.config] + job.extra_cc + incs + \
          [hfile] + srcs + ['--function', job.entry, '-o', a_gb]
    rc, out, err = _run(cmd, wd, 300, res.cmds)
    if rc != 0 or not os.path.exists(a_gb):
        res.reason = 'goto-cc failed: ' + (err or out)[-1500:]
        res.wall = time.time() - t0
        return res
    for l in (err or '').splitlines():
        if 'warning' in l.lower() and 'redefined' not in l:
            res.warnings.append('goto-cc: ' + l.strip()[:200])
    target = a_gb
    if not job.no_dfcc:
        b_gb = os.path.join(wd, 'b.gb')
        gi = ['goto-instrument']
        apply_loops = False
        if job.loop_contracts:
            rc, st, _ = _run(['goto-instrument', '--show-symbol-table', a_gb], wd, 120, res.cmds)
            funcs = []
            for func, lcs in job.loop_contracts.items():
                entries = []
                for lc in lcs:
                    d = expand_loop_contract(lc['template'], [os.path.join(VERIF, 'spec'), os.path.join(VERIF, 'loops')])
                    rng = None
                    if lc.get('case_label'):
                        rng = locate_case_arm(os.path.join(REPO, lc['src']), func, lc['case_label'])
                        rc2, sl, _ = _run(['goto-instrument', '--show-loops', a_gb], wd, 120, res.cmds)
                        cand = [n for n, ln in loops_of(sl, func) if rng and rng[0] <= ln <= rng[1]]
                        if len(cand) != 1:
                            res.reason = 'loop of %s in arm %s not located uniquely (%s)' % (func, lc['case_label'], cand)
                            res.wall = time.time() - t0
                            return res
                        lc = dict(lc, loop_id=cand[0])
                    if 'loop_rank' in lc:
                        # the n-th loop of the function in SOURCE order (goto-instrument numbers loops by their back edges)
                        rc2, sl, _ = _run(['goto-instrument', '--show-loops', a_gb], wd, 120, res.cmds)
                        byline = sorted(loops_of(sl, func), key=lambda t: t[1])
                        if lc['loop_rank'] >= len(byline):
                            res.reason = 'loop of %s with source rank %d not found (%d loops)' % (func, lc['loop_rank'], len(byline))
                            res.wall = time.time() - t0
                            return res
                        lc = dict(lc, loop_id=byline[lc['loop_rank']][0])
                    sm, e = symbol_map(st, func, lc['symbols'], rng)
                    if sm is None:
                        res.reason = 'loop contract for %s cannot be attached: %s' % (func, e)
                        res.wall = time.time() - t0
                        return res
                    ent = {'loop_id': str(lc.get('loop_id', 0)), 'invariants': d['INV'], 'symbol_map': sm}
                    if 'DEC' in d:
                        ent['decreases'] = d['DEC']
                    if 'ASG' in d:
                        ent['assigns'] = d['ASG']
                    if lc.get('all_locals'):
                        rc3, sl3, _ = _run(['goto-instrument', '--show-loops', a_gb], wd, 120, res.cmds)
                        heads = [ln for nn, ln in loops_of(sl3, func) if nn == int(lc.get('loop_id', 0))]
                        tg, extra = all_locals(st, func, heads[0] if heads else None)
                        if not tg:
                            res.reason = 'loop contract for %s cannot be attached: no locals found' % func
                            res.wall = time.time() - t0
                            return res
                        ent['assigns'] = ', '.join(tg + ([d['ASG']] if 'ASG' in d else []))
                        ent['symbol_map'] = ';'.join(extra + ([sm] if sm else []))
                    entries.append(ent)
                funcs.append({func: entries})
            lcf = os.path.join(wd, 'loops.json')
            json.dump({'sources': [], 'functions': funcs}, open(lcf, 'w'), indent=1)
            gi += ['--loop-contracts-file', lcf]
            apply_loops = True
            res.loop_contract_mode = 'loop-contract'
        gi += ['--dfcc', job.entry]
        if job.enforce:
            gi += ['--enforce-contract', job.enforce]
        for r in job.replace:
            gi += ['--replace-call-with-contract', r]
        if apply_loops:
            gi += ['--apply-loop-contracts']
        gi += [a_gb, b_gb]
        if os.path.exists(b_gb):
            os.remove(b_gb)
        rc, out, err = _run(gi, wd, 600, res.cmds)
        txt = (out or '') + (err or '')
        if rc != 0 or not os.path.exists(b_gb):
            res.reason = 'goto-instrument failed: ' + txt[-2000:]
            res.wall = time.time() - t0
            return res
        for l in txt.splitlines():
            ll = l.lower()
            if ('warning' in ll or 'unsound' in ll or 'ignoring' in ll) and 'no body for function' not in ll:
                res.warnings.append('goto-instrument: ' + l.strip()[:200])
        target = b_gb
    if job.unwind:
        rc, sl, _ = _run(['goto-instrument', '--show-loops', target], wd, 120, res.cmds)
        bounds = {}
        for m in re.finditer(r'^Loop (\S+)\.(\d+):\n\s+file (\S+) line (\d+) function (\S+)', sl, re.M):
            key = '%s.%s' % (m.group(1), m.group(2))
            # '*repo*': every loop whose code comes from the repository (library or example), wherever it lives now;
            # a bound given for a specific function overrides it
            if '*repo*' in job.unwind and (m.group(3).startswith(REPO + '/') or '/examples/' in m.group(3) or '/src/avtp/' in m.group(3)):
                bounds[key] = job.unwind['*repo*']
            for fn, bound in job.unwind.items():
                if fn != '*repo*' and (m.group(1) == fn or m.group(1).startswith(fn + '_wrapped') or m.group(5) == fn):
                    bounds[key] = bound
        names = ['%s:%d' % (k, v) for k, v in bounds.items()]
        if not names:
            res.reason = 'bounded stand-in: loops of %s not found in the instrumented binary' % list(job.unwind)
            res.wall = time.time() - t0
            return res
        job.unwindset = ','.join(sorted(set(names)))
    default_unwind = False
    if not job.unwind and not job.unwindset and not job.no_dfcc:
        # Loops of repository code that have no loop contract in this obligation (normally none are reachable: constant-bound
        # loops, dead switch arms).  A change can add one (a new `while` in a helper); without a bound symbolic execution would
        # not return.  They get a default bound with unwinding assertions; exceeding it makes the obligation UNDECIDED, and a
        # real failure found within the bound is a real counterexample.
        rc, sl, _ = _run(['goto-instrument', '--show-loops', target], wd, 120, res.cmds)
        names = []
        for m in re.finditer(r'^Loop (\S+)\.(\d+):\n\s+file (\S+) line (\d+) function (\S+)', sl or '', re.M):
            if m.group(3).startswith(REPO + '/') or '/examples/' in m.group(3) or '/src/avtp/' in m.group(3):
                names.append('%s.%s:%d' % (m.group(1), m.group(2), DEFAULT_UNWIND))
        if names:
            job.unwindset = ','.join(sorted(set(names)))
            default_unwind = True
    cb = ['cbmc', target] + CBMC_CHECKS + ['--json-ui'] + job.extra_cbmc
    if job.no_dfcc:
        cb += ['--function', job.entry]
    if job.unwindset:
        cb += ['--unwindset', job.unwindset] + (['--no-unwinding-assertions'] if job.no_unwinding_assertions else ['--unwinding-assertions'])
    if job.obj_bits:
        cb += ['--object-bits', str(job.obj_bits)]
    # kissat is the default back end: MiniSat's run time on the larger obligations varies by two orders of magnitude
    if job.solver in (None, 'kissat'):
        cb += ['--external-sat-solver', 'kissat']
    elif job.solver == 'cadical':
        cb += ['--sat-solver', 'cadical']
    results = None
    if job.chunk:
        # property list first, then one sliced run per group of properties
        rc, out, err = _run(cb + ['--show-properties'], wd, 300, res.cmds)
        try:
            plist = []
            for m in json.loads(out):
                if isinstance(m, dict) and 'properties' in m:
                    plist = [p['name'] for p in m['properties']]
        except Exception:
            plist = []
        if not plist:
            res.reason = 'cannot list properties for chunked solving: %s' % (out or err)[-400:]
            res.wall = time.time() - t0
            return res
        results = []
        groups = [plist[i:i + job.chunk] for i in range(0, len(plist), job.chunk)]
        deadline = t0 + job.timeout

        def solve_group(g):
            args = []
            for pn in g:
                args += ['--property', pn]
            left = max(10, deadline - time.time())
            log = []
            rc, out, err = _run(cb + ['--slice-formula'] + args, wd, left, log)
            return g, rc, out, err, log
        with concurrent.futures.ThreadPoolExecutor(max_workers=max(1, job.chunk_par)) as ex:
            outs = list(ex.map(solve_group, groups))
        for g, rc, out, err, log in outs:
            res.cmds.append({'cmd': 'cbmc --slice-formula <%d properties>' % len(g), 'rc': rc, 's': log[0]['s'] if log else None})
            if rc == -999:
                res.reason = 'cbmc timeout after %ss (chunked)' % job.timeout
                res.wall = time.time() - t0
                return res
            try:
                msgs = json.loads(out)
            except Exception:
                res.reason = 'cbmc output unparsable (chunk, rc=%s): %s' % (rc, (out or err)[-800:])
                res.wall = time.time() - t0
                return res
            got = None
            for m in msgs:
                if isinstance(m, dict):
                    if 'result' in m:
                        got = m['result']
                    t = m.get('messageText', '') if m.get('messageType') else ''
                    mm = re.search(r'Runtime decision procedure: ([0-9.]+)s', t)
                    if mm:
                        res.solver_s += float(mm.group(1))
                    if m.get('messageType') == 'ERROR':
                        res.warnings.append('cbmc: ' + t.strip()[:300])
            if got is None:
                res.reason = 'cbmc produced no result list for a chunk (rc=%s): %s' % (rc, ' | '.join(res.warnings)[-600:] or (err or '')[-300:])
                res.wall = time.time() - t0
                return res
            gs = set(g)
            results.extend([r for r in got if r.get('property') in gs])
        res.wall = time.time() - t0
        if len(results) != len(plist):
            res.reason = 'chunked solving lost properties (%d of %d)' % (len(results), len(plist))
            return res
    else:
      rc, out, err = _run(cb, wd, job.timeout, res.cmds)
      res.wall = time.time() - t0
      if rc == -999:
        res.reason = 'cbmc timeout after %ss' % job.timeout
        return res
      try:
        msgs = json.loads(out)
      except Exception:
        res.reason = 'cbmc output unparsable (rc=%s): %s' % (rc, (out or err)[-800:])
        return res
      cprover_status = None
      for m in msgs:
        if isinstance(m, dict):
            if 'result' in m:
                results = m['result']
            if 'cProverStatus' in m:
                cprover_status = m['cProverStatus']
            if m.get('messageType') in ('WARNING', 'ERROR'):
                t = m.get('messageText', '')
                if m.get('messageType') == 'ERROR' or 'ignoring' in t or 'unsound' in t:
                    res.warnings.append('cbmc: ' + t.strip()[:300])
            if m.get('messageType') == 'STATISTICS' or m.get('messageType') == 'STATUS-MESSAGE':
                t = m.get('messageText', '')
                mm = re.search(r'Runtime decision procedure: ([0-9.]+)s', t)
                if mm:
                    res.solver_s += float(mm.group(1))
                mm = re.search(r'Runtime Solver: ([0-9.]+)s', t)
                if mm:
                    res.solver_s += float(mm.group(1))
      if results is None:
        res.reason = 'cbmc produced no result list (rc=%s, status=%s): %s' % (
            rc, cprover_status, ' | '.join(res.warnings)[-800:] or (err or '')[-500:])
        return res
    canary_seen = False
    for r in results:
        sl = r.get('sourceLocation', {}) or {}
        line = sl.get('line')
        pr = PropResult(r.get('property', ''), r.get('description', ''), r.get('status', ''),
                        sl.get('file'), int(line) if line and str(line).isdigit() else None,
                        sl.get('function'))
        cls, tag = classify(pr, job, hfile)
        pr.cls, pr.tag = cls, tag
        if pr.func in job.ignore_funcs:
            continue                      # other entry points sharing the TU (unreachable here)
        if cls == 'canary':
            canary_seen = True
            ok = (pr.status == 'FAILURE')     # every canary must be reachable
            res.canary_ok = ok if res.canary_ok is None else (res.canary_ok and ok)
            continue
        res.props.append(pr)
    if job.canary:
        if not canary_seen:
            res.reason = 'reachability canary missing from the result list'
            return res
        if not res.canary_ok:
            res.reason = 'VACUOUS: reachability canary was not reached (contradictory preconditions)'
            return res
    if not res.props:
        res.reason = 'zero obligations generated'
        return res
    if job.loop_contracts:
        if not any(p.cls == 'loop' for p in res.props):
            res.reason = 'loop contract silently dropped (no loop_invariant obligations)'
            return res
    if job.ignore_unwind:
        res.props = [p for p in res.props if p.cls != 'unwind']
    undef = [p for p in res.props if p.cls == 'undefined' and p.status == 'FAILURE']
    if undef:
        # DFCC turns a call to a function that has neither a body nor a contract in this obligation into an assertion; that says
        # nothing about the property (the code started to call something the obligation does not know)
        res.reason = 'calls a function without body or contract in this obligation (%s): undecided' % undef[0].name.split('.')[0]
        return res
    if default_unwind:
        job.unwindset = None        # (the job object may be run again, e.g. with more object bits)
        hit = [p for p in res.props if p.cls == 'unwind' and p.status == 'FAILURE']
        if hit and not [p for p in res.failed() if p.cls != 'unwind']:
            res.reason = ('a loop without loop contract needs more than %d iterations (%s line %s): undecided'
                          % (DEFAULT_UNWIND, os.path.basename(hit[0].file or '?'), hit[0].line))
            return res
        res.props = [p for p in res.props if p.cls != 'unwind']
    if res.failed():
        res.status = 'failed'
    else:
        odd = [p for p in res.props if p.status != 'SUCCESS']
        if odd:
            # CBMC reports ERROR/UNKNOWN when the back end died (e.g. the external SAT solver ran out of memory)
            # after a first solver iteration: nothing is proved about those properties
            res.reason = 'cbmc left %d properties undecided (status %s): solver failure' % (len(odd), odd[0].status)
            return res
        res.status = 'ok'
    if not keep and res.status == 'ok':
        shutil.rmtree(wd, ignore_errors=True)
    return res


def trace_for(job, res, prop_name, timeout=300):
    """Re-run cbmc for one failing property with --trace; returns (witness dict, raw text)."""
    wd = res.workdir
    target = os.path.join(wd, 'a.gb' if job.no_dfcc else 'b.gb')
    if not os.path.exists(target):
        return {}, 'goto binary no longer available'
    cb = ['cbmc', target] + CBMC_CHECKS + ['--json-ui', '--trace', '--property', prop_name] + job.extra_cbmc
    if job.no_dfcc:
        cb += ['--function', job.entry]
    if job.unwindset:
        cb += ['--unwindset', job.unwindset] + (['--no-unwinding-assertions'] if job.no_unwinding_assertions else ['--unwinding-assertions'])
    if job.obj_bits:
        cb += ['--object-bits', str(job.obj_bits)]
    log = []
    rc, out, err = _run(cb, wd, timeout, log)
    wit = {}
    try:
        msgs = json.loads(out)
    except Exception:
        return {}, (out or err)[-2000:]
    for m in msgs:
        if isinstance(m, dict) and 'result' in m:
            for r in m['result']:
                if r.get('property') == prop_name and 'trace' in r:
                    for st in r['trace']:
                        if st.get('stepType') == 'assignment':
                            lhs = st.get('lhs', '')
                            if lhs.startswith('vp_w'):
                                v = st.get('value', {})
                                if v:
                                    wit[lhs] = v
    return wit, ''


def run_jobs(jobs, workroot, nproc=None, keep=False, progress=None):
    nproc = nproc or int(os.environ.get('VERIF_JOBS', os.cpu_count() or 4))
    # heavy jobs first
    order = sorted(range(len(jobs)), key=lambda i: -jobs[i].timeout if jobs[i].solver else 0)
    results = [None] * len(jobs)
    with concurrent.futures.ThreadPoolExecutor(max_workers=nproc) as ex:
        futs = {ex.submit(run_job, jobs[i], workroot, keep): i for i in order}
        done = 0
        for f in concurrent.futures.as_completed(futs):
            i = futs[f]
            try:
                results[i] = f.result()
            except Exception as e:  # driver bug or tool crash: undecided, never a violation
                r = JobResult(jobs[i])
                r.reason = 'driver exception: %r' % (e,)
                results[i] = r
            done += 1
            if progress:
                progress(done, len(jobs), results[i])
    # Back-end failures (the SAT solver ran out of memory while 16 obligations were being solved side by side, CBMC died
    # without a result list) say nothing about the property: such obligations are solved again ONE AT A TIME, with the
    # CBMC properties split into groups (--slice-formula), before anything is reported.
    for i, r in enumerate(results):
        if r is None or r.status != 'undecided' or not any(x in r.reason for x in RESOURCE):
            continue
        j = r.job
        if not j.chunk:
            j.chunk, j.chunk_par = 40, 2
        j.timeout = max(j.timeout, 1800)
        try:
            r2 = run_job(j, workroot, keep)
        except Exception as e:
            r2 = JobResult(j)
            r2.reason = 'driver exception on retry: %r' % (e,)
        r2.warnings.append('solved again serially after a back-end failure: %s' % r.reason[:160].replace('\n', ' '))
        results[i] = r2
        if progress:
            progress(done, len(jobs), r2)
    return results


def static_scan(workroot):
    """Supporting static fact for C16: DFCC exempts function-local statics from the frame
    check, so the goto symbol table of every library translation unit is scanned: every
    object with static lifetime must be const-qualified.  Returns (examined, offenders, errors)."""
    examined, offenders, errors = [], [], []
    srcroot = os.path.join(REPO, 'src')
    wd = os.path.join(workroot, 'static_scan')
    os.makedirs(wd, exist_ok=True)
    files = []
    for root, _, fs in os.walk(srcroot):
        for f in sorted(fs):
            if f.endswith('.c'):
                files.append(os.path.join(root, f))
    if not files:
        errors.append('no library sources found under %s' % srcroot)
    for i, cf in enumerate(sorted(files)):
        gb = os.path.join(wd, 'tu%d.gb' % i)
        log = []
        rc, out, err = _run(['goto-cc', '-std=gnu99', '-c', '-I' + os.path.join(REPO, 'include'), cf, '-o', gb], wd, 120, log)
        if rc != 0:
            errors.append('goto-cc failed on %s: %s' % (cf, err[-300:]))
            continue
        rc, out, err = _run(['goto-instrument', '--show-symbol-table', gb], wd, 120, log)
        if rc != 0:
            errors.append('symbol table of %s unavailable' % cf)
            continue
        for blk in out.split('\n\n'):
            m = re.search(r'^Symbol\.*: (\S+)$', blk, re.M)
            t = re.search(r'^Type\.*: (.*)$', blk, re.M)
            fl = re.search(r'^Flags\.*: (.*)$', blk, re.M)
            loc = re.search(r'^Location\.*: (.*)$', blk, re.M)
            if not (m and t and fl):
                continue
            name, ty, flags = m.group(1), t.group(1), fl.group(1)
            if 'static_lifetime' not in flags or 'lvalue' not in flags:
                continue
            if name.startswith('__CPROVER') or '/repo' not in (loc.group(1) if loc else '') and REPO not in (loc.group(1) if loc else ''):
                continue
            rel = os.path.relpath(cf, REPO)
            examined.append('%s:%s' % (rel, name))
            if not ty.startswith('const '):
                offenders.append({'file': rel, 'symbol': name, 'type': ty, 'location': loc.group(1) if loc else ''})
    return examined, offenders, errors
