#!/usr/bin/env python3
"""C19, ACF-CAN example talker (examples/acf-can/acf-can-talker.c): the sending loop of main().

The file is #included unmodified (main renamed).  Two loop contracts close the loops of main:
  * the outer `for(;;)`: one packet from an arbitrary state of every local (frame = all locals of main + the two sequence counters);
  * the inner `while (i < num_acf_msgs)`: invariant
        - messages are placed back to back: pdu_length == offset of the control header + cf_length,
        - the packet stays inside the 1500-byte buffer,
        - every frame the CAN socket delivered has been packed: (ghost count of successful read()s since loop entry) == i.
prepare_acf_packet is replaced by a weakening of its proved contract (obligation examples/acf-can-talker/prepare_acf_packet proves: the
reference encoding of the frame at acf_pdu, frame clause = exactly the bytes of that message; used here: constant 80-byte frame, returned length).  The trusted contract of sendto() carries the
property's second sentence as a precondition checked at the call: the enclosing TSCF/NTSCF header announces exactly the number of
bytes that follow it in the datagram handed to the socket.

Not mechanised: that the datagram is the concatenation of the messages in order follows from back-to-back placement plus the frame
clause of prepare_acf_packet (a message never touches the bytes of an earlier one); CBMC's loop havoc forgets the contents."""
import os
import re

from vplib import Job, REPO

# example obligations link the whole library (precompiled once per run): a library function the example starts to call is
# then inlined with its real body instead of being an undefined function
LIBSRC = ['src/avtp/Utils.c']
import handjobs5 as H5

TALKER_ENV = r'''
#include <sys/types.h>
#include <sys/socket.h>
#include <unistd.h>
#include <time.h>
#include <stdio.h>
#include <argp.h>
#include <linux/can.h>
#include <linux/if_packet.h>
#include <netinet/in.h>
int vp_env_failed;
unsigned vp_reads;                 /* ghost: number of frames the CAN socket has delivered */
/* CAN socket: delivers nothing (0), fails (-1) or delivers one whole frame; SocketCAN frames are well formed
 * (length <= 8 / 64; identifiers above 0x7FF carry the EFF flag) */
ssize_t read(int fd, void *buf, size_t n)
__CPROVER_requires(__CPROVER_w_ok(buf, n) && (n == sizeof(struct can_frame) || n == sizeof(struct canfd_frame)))
__CPROVER_assigns(__CPROVER_object_upto((unsigned char *)buf, n); vp_reads)
__CPROVER_ensures(__CPROVER_return_value == -1 || __CPROVER_return_value == 0 || __CPROVER_return_value == (ssize_t)n)
__CPROVER_ensures(__CPROVER_return_value > 0 ==> vp_reads == __CPROVER_old(vp_reads) + 1u)
__CPROVER_ensures(__CPROVER_return_value <= 0 ==> vp_reads == __CPROVER_old(vp_reads))
__CPROVER_ensures(__CPROVER_return_value > 0 ==> ((const struct canfd_frame *)buf)->len <= (n == sizeof(struct canfd_frame) ? 64 : 8))
__CPROVER_ensures(__CPROVER_return_value > 0 ==> ((((const struct canfd_frame *)buf)->can_id & CAN_EFF_FLAG) || (((const struct canfd_frame *)buf)->can_id & CAN_EFF_MASK) <= CAN_SFF_MASK))
;
void perror(const char *s) { }
int close(int fd) { return 0; }
int fprintf(FILE *f, const char *fmt, ...) { return 0; }   /* never reads its arguments */
error_t argp_parse(const struct argp *a, int argc, char **argv, unsigned flags, int *end, void *input) { return 0; }
int create_talker_socket(int priority) { int fd = nondet_int(); if (fd < 0) vp_env_failed = 1; return fd; }
int create_talker_socket_udp(int priority) { int fd = nondet_int(); if (fd < 0) vp_env_failed = 1; return fd; }
int setup_socket_address(int fd, const char *ifname, uint8_t macaddr[], int protocol, struct sockaddr_ll *sk_addr) { int r = nondet_int(); if (r < 0) vp_env_failed = 1; return r; }
int setup_udp_socket_address(struct in_addr *ip, uint32_t port, struct sockaddr_in *sk_addr) { int r = nondet_int(); if (r < 0) vp_env_failed = 1; return r; }
'''

SENDTO = r'''
#define VP_T_OFF (use_udp ? 4u : 0u)
#define VP_T_HDR (use_tscf ? 24u : 12u)
#define VP_T_ANNOUNCED(b) (use_tscf ? vp_get_bits((const uint8_t *)(b) + VP_T_OFF, 160, 16) : vp_get_bits((const uint8_t *)(b) + VP_T_OFF, 13, 11))
ssize_t sendto(int fd, const void *buf, size_t len, int flags, const struct sockaddr *addr, socklen_t alen)
__CPROVER_requires(__CPROVER_r_ok(buf, len) && len >= VP_T_OFF + VP_T_HDR && len <= 1500u)
__CPROVER_requires(VP_T_ANNOUNCED(buf) == len - VP_T_OFF - VP_T_HDR) /*TAG C19:control-header-announces-exactly-the-acf-bytes-that-follow*/
__CPROVER_requires(vp_get_bits((const uint8_t *)buf + VP_T_OFF, 0, 8) == (use_tscf ? 0x05u : 0x82u)) /*TAG C19:control-format-header-in-front-of-the-acf-messages*/
__CPROVER_assigns(vp_env_failed)
__CPROVER_ensures(__CPROVER_return_value >= -1 && __CPROVER_return_value <= (ssize_t)len)
__CPROVER_ensures(__CPROVER_return_value < 0 ==> vp_env_failed == 1)
__CPROVER_ensures(__CPROVER_return_value >= 0 ==> vp_env_failed == __CPROVER_old(vp_env_failed))
;
'''

# inner loop: while (i < num_acf_msgs)
INNER = ('INV: 0 <= i && i <= num_acf_msgs && pdu_length == (use_udp ? 4 : 0) + cf_length && cf_length >= (use_tscf ? 24 : 12) && '
         'pdu_length <= 1500 && vp_reads == __CPROVER_loop_entry(vp_reads) + (unsigned)i && pdu[(use_udp ? 4 : 0)] == (use_tscf ? 0x05 : 0x82)\n'
         'ASG: i, res, can_frame, pdu_length, cf_length, __CPROVER_object_whole(pdu), vp_reads\n')
INNER_SYMS = ['i', 'res', 'can_frame', 'pdu_length', 'cf_length', 'pdu', '::num_acf_msgs', '::use_udp', '::use_tscf', '::vp_reads']
OUTER = 'INV: 1 == 1\nASG: vp_env_failed, vp_reads, seq_num, udp_seq_num\n'
OUTER_SYMS = ['::vp_env_failed', '::vp_reads', '::seq_num', '::udp_seq_num']

TALKER_ASSUME = [
    'trusted environment: read() on the CAN socket returns -1, 0 or one whole well-formed frame (length <= 8 / 64, identifiers above 0x7FF carry CAN_EFF_FLAG) and counts delivered '
    'frames in a ghost; sendto() contract (its preconditions are the obligations about the datagram); socket set-up, argp_parse, perror, close are stubs',
    'that the datagram is the concatenation of the ACF messages in frame order follows from back-to-back placement (loop invariant) and the frame clause of prepare_acf_packet; '
    'the contents of earlier messages are not tracked through the loop havoc',
    'the inner loop has no variant: it blocks ("spins") until the CAN socket has delivered the requested number of frames, by design',
]


def _tags(tu_text):
    cm = {}
    for i, l in enumerate(tu_text.split('\n'), 1):
        m = re.search(r'/\*TAG\s+(\S+?)\s*\*/', l)
        if m:
            cm[i] = m.group(1)
    return cm


def talker_main_jobs(model, tier, config='le'):
    import gen_contracts as G
    inc = [os.path.join(REPO, 'examples')]
    need = {'udp': ['Avtp_Udp_SetField'], 'tscf': ['Avtp_Tscf_Init', 'Avtp_Tscf_SetField'], 'ntscf': ['Avtp_Ntscf_Init', 'Avtp_Ntscf_SetField']}
    gen = ''
    for k, v in need.items():
        gen += G.format_contracts(model, model['fmts'][k], needed=set(v)).text()
    # prepare_acf_packet as USED here: a weakening of the contract that obligation examples/acf-can-talker/prepare_acf_packet proves
    # (same preconditions on the frame, a LARGER frame clause - the constant 80-byte window instead of exactly 16+len+pad bytes -
    # and only the returned length as postcondition).  The constant-size window keeps CBMC's havoc tractable.
    prep = (
        'static int vp_use_prepare_acf_packet(uint8_t* acf_pdu, frame_t frame)\n'
        '__CPROVER_requires((unsigned)can_variant <= 1u && VP_LEN <= (VP_FD ? 64u : 8u))\n'
        '__CPROVER_requires((VP_ID & CAN_EFF_FLAG) || (VP_ID & CAN_EFF_MASK) <= CAN_SFF_MASK)\n'
        '__CPROVER_requires(frame.cc.len == frame.fd.len && frame.cc.can_id == frame.fd.can_id)\n'
        '__CPROVER_requires(__CPROVER_w_ok(acf_pdu, 80u)) /*TAG C19:room-for-a-whole-acf-message-before-it-is-built*/\n'
        '__CPROVER_assigns(__CPROVER_object_upto(acf_pdu, 80u))\n'
        '__CPROVER_ensures(__CPROVER_return_value == (int)(16u + VP_LEN + VP_PADOF(VP_LEN)))\n;\n')
    src = (G.PRELUDE + 'size_t vp_i, vp_j, vp_extra;\n#include "vp_spec.h"\n#include "can.h"\n' + TALKER_ENV + gen +
           '#define main vp_talker_main\n#include "acf-can/acf-can-talker.c"\n#undef main\n'
           'int setup_can_socket(const char *c, Avtp_CanVariant_t v) { int s = nondet_int(); if (!s) vp_env_failed = 1; return s; }\n'
           '#define VP_FD (can_variant == AVTP_CAN_FD)\n#define VP_LEN ((unsigned)frame.fd.len)\n#define VP_ID (frame.fd.can_id)\n'
           '#define VP_DATA(i) (VP_FD ? frame.fd.data[i] : frame.cc.data[i])\n' + prep + SENDTO +
           'int vp_talker_main(int argc, char *argv[])\n'
           '__CPROVER_assigns(vp_env_failed; vp_reads; seq_num; udp_seq_num)\n'
           '__CPROVER_ensures(vp_env_failed == 1) /*TAG C19:talker-leaves-its-sending-loop-only-if-a-system-call-failed*/\n;\n'
           'void harness(void)\n{\n    use_udp = VP_CFG_UDP; use_tscf = VP_CFG_TSCF; can_variant = (Avtp_CanVariant_t)nondet_uint(); num_acf_msgs = nondet_u8();\n'
           '    seq_num = nondet_u8(); udp_seq_num = nondet_u32(); vp_reads = nondet_uint(); vp_env_failed = 0;\n'
           '    vp_i = nondet_size(); vp_j = nondet_size(); vp_extra = 0; vp_wx = 0;\n'
           '    __CPROVER_assume(use_udp <= 1 && use_tscf <= 1 && (unsigned)can_variant <= 1u);\n'
           '#ifdef VP_FB_MSGS      /* bounded FALLBACK build only */\n    __CPROVER_assume(num_acf_msgs <= VP_FB_MSGS);\n#endif\n'
           '    char *argv[1] = { 0 };\n    vp_talker_main(1, argv);\n    VP_CANARY();\n}\n')
    own = {'post': ['C19'], 'safety': ['C19'], 'assigns': ['C19'], 'loop': ['C19'], 'assert': ['C19']}
    repl = [x for v in need.values() for x in v] + ['prepare_acf_packet/vp_use_prepare_acf_packet', 'read', 'sendto']
    jobs = []
    for udp in (0, 1):
        for tscf in (0, 1):
            # one obligation per transport x control format (constants: symbolic execution prunes the other branches);
            # classic / FD stays symbolic
            nm = 'examples/acf-can-talker/main-sending-loop/%s-%s' % ('udp' if udp else 'raw', 'tscf' if tscf else 'ntscf')
            # fallback when the two loop contracts cannot be attached (loop moved into a helper, locals renamed): at most 2 messages
            # per packet, main's sending loop unwound once, other loops 3 times, WITHOUT unwinding assertions (the sending loop never terminates;
            # paths that spin longer on failed reads are cut) - checks memory safety and the sendto() preconditions only
            fb = Job(nm + '~bounded-fallback', src, LIBSRC, enforce='vp_talker_main', replace=repl,
                     owners=dict(own, unwind=['C19']), clause_map=_tags(src), function='acf-can-talker.c:main(sending loop)', kind='example-fallback',
                     config=config, includes=inc, timeout=1800, obj_bits=10, assumptions=TALKER_ASSUME,
                     extra_cc=['-DVP_CFG_UDP=%d' % udp, '-DVP_CFG_TSCF=%d' % tscf, '-DVP_FB_MSGS=2'], unwind={'*repo*': 3, 'vp_talker_main': 1}, no_unwinding_assertions=True,
                     bounded='BOUNDED FALLBACK (loop contracts not attachable): at most 2 ACF messages per packet, the sending loop of main unwound once, every other loop 3 times, without unwinding '
                             'assertions (first packet from the initial state); the frames-delivered == messages-built invariant is not checked')
            jobs.append(Job(nm, src, LIBSRC, fallback=fb,
                            enforce='vp_talker_main', replace=repl,
                            loop_contracts={'vp_talker_main': [{'template': OUTER, 'symbols': OUTER_SYMS, 'all_locals': True, 'loop_rank': 0},
                                                               {'template': INNER, 'symbols': INNER_SYMS, 'loop_rank': 1}]},
                            owners=own, clause_map=_tags(src), function='acf-can-talker.c:main(sending loop)', kind='example', config=config,
                            includes=inc, timeout=1800, obj_bits=10, assumptions=TALKER_ASSUME,
                            extra_cc=['-DVP_CFG_UDP=%d' % udp, '-DVP_CFG_TSCF=%d' % tscf]))
    return jobs
