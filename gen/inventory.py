#!/usr/bin/env python3
"""Inventory of the public API, rebuilt from /repo/include on every run.

Scans every header under include/avtp: macros of the form *_HEADER_LEN, enum
definitions (ordered enumerators), alias #defines, and every function prototype with
return and parameter types.  Anything that cannot be parsed raises InventoryError
(the driver turns that into exit 2 = undecided, never a pass).
"""
import os
import re
import json
import sys


class InventoryError(Exception):
    pass


def strip_comments(text):
    text = re.sub(r'/\*.*?\*/', ' ', text, flags=re.S)
    text = re.sub(r'//[^\n]*', ' ', text)
    return text


PROTO_RE = re.compile(
    r'(?:^|[;}])\s*((?:const\s+|unsigned\s+|struct\s+|enum\s+)*[A-Za-z_]\w*(?:\s*\*+)?)\s*'
    r'\b([A-Za-z_]\w*)\s*\(([^(){};]*)\)\s*;', re.S)

TYPE_BITS = {'uint8_t': 8, 'int8_t': 8, 'uint16_t': 16, 'int16_t': 16, 'uint32_t': 32,
             'int32_t': 32, 'uint64_t': 64, 'int64_t': 64, 'int': 32, 'unsigned': 32}


def parse_params(s):
    s = ' '.join(s.split())
    if s in ('', 'void'):
        return []
    out = []
    for p in s.split(','):
        p = p.strip()
        m = re.match(r'^(.*?)(\w+)\s*(\[\s*\])?$', p)
        if not m:
            raise InventoryError('cannot parse parameter %r' % p)
        ty = m.group(1).strip()
        if m.group(3):
            ty += '*'
        ty = re.sub(r'\s*\*', '*', ty)
        out.append({'type': ty, 'name': m.group(2)})
    return out


def parse_header(path, rel):
    raw = open(path).read()
    raw = re.sub(r'\\\r?\n', ' ', raw)          # join backslash-continued lines (multi-line #if / #define)
    # regions guarded by the verification hook define are not part of the public API
    raw = re.sub(r'^[ \t]*#[ \t]*ifdef[ \t]+COVESA_OPEN1722_VERIF\b.*?^[ \t]*#[ \t]*endif[^\n]*$', '', raw, flags=re.S | re.M)
    text = strip_comments(raw)
    info = {'path': rel, 'macros': {}, 'enums': {}, 'enum_order': [], 'protos': [], 'aliases': {},
            'structs': []}
    # object-like macros
    for m in re.finditer(r'^[ \t]*#[ \t]*define[ \t]+(\w+)[ \t]+(.+?)[ \t]*$', text, flags=re.M):
        name, val = m.group(1), m.group(2).strip()
        info['macros'][name] = val
    # static inline functions (Byteorder.h): record and blank their bodies
    inl = []
    def _inl(m):
        inl.append({'ret': m.group(1), 'name': m.group(2), 'params': parse_params(m.group(3)),
                    'inline': True})
        return ';'
    text2 = re.sub(r'static\s+inline\s+(\w+)\s+(\w+)\s*\(([^()]*)\)\s*\{[^{}]*\}', _inl, text, flags=re.S)
    # drop preprocessor lines
    text2 = re.sub(r'^[ \t]*#.*$', '', text2, flags=re.M)
    text2 = text2.replace('extern "C" {', ';')
    # enums
    def _enum(m):
        body = m.group(2)
        tname = m.group(3)
        items = []
        val = -1
        for it in body.split(','):
            it = it.strip()
            if not it:
                continue
            mm = re.match(r'^(\w+)\s*(?:=\s*(\S+))?$', it)
            if not mm:
                raise InventoryError('%s: cannot parse enumerator %r' % (rel, it))
            if mm.group(2) is not None:
                try:
                    val = int(mm.group(2), 0)
                except ValueError:
                    raise InventoryError('%s: non-literal enumerator value %r' % (rel, it))
            else:
                val += 1
            items.append((mm.group(1), val))
        info['enums'][tname] = items
        info['enum_order'].append(tname)
        return ';'
    text2 = re.sub(r'typedef\s+enum\s*(\w+)?\s*\{([^{}]*)\}\s*(\w+)\s*;', _enum, text2, flags=re.S)
    # structs / unions (typedef'd or tagged); keep names only, blank them out
    def _struct(m):
        info['structs'].append(' '.join(m.group(0).split())[:200])
        return ';'
    prev = None
    while prev != text2:
        prev = text2
        text2 = re.sub(r'(?:typedef\s+)?(?:struct|union)\s*\w*\s*\{[^{}]*\}\s*[^;{}]*;', _struct, text2, flags=re.S)
    # prototypes: what is left is a sequence of ';'-terminated declarations
    for chunk in text2.split(';'):
        c = ' '.join(chunk.split()).lstrip('} ').strip()
        if not c or c == '{':
            continue
        m = re.match(r'^((?:const |unsigned |struct |enum )*[A-Za-z_]\w*(?: ?\*+)?) ?\b([A-Za-z_]\w*) ?\(([^(){}]*)\)'
                     r'(?: ?__attribute__ ?\(\(.*\)\))?$', c)
        if not m:
            if '(' in c or re.search(r'\w', c):
                raise InventoryError('%s: cannot classify declaration %r' % (rel, c[:120]))
            continue
        ret = re.sub(r'\s*\*', '*', m.group(1).strip())
        info['protos'].append({'ret': ret, 'name': m.group(2), 'params': parse_params(m.group(3)),
                               'inline': False})
    info['protos'].extend(inl)
    return info


def build(repo='/repo'):
    inc = os.path.join(repo, 'include')
    inv = {'headers': {}}
    for root, _, files in os.walk(inc):
        for f in sorted(files):
            if f.endswith('.h'):
                p = os.path.join(root, f)
                rel = os.path.relpath(p, inc)
                inv['headers'][rel] = parse_header(p, rel)
    if not inv['headers']:
        raise InventoryError('no headers found under %s' % inc)
    return inv


def eval_len_macro(val):
    """(N * AVTP_QUADLET_SIZE) -> N*4"""
    m = re.match(r'^\(?\s*(\d+)\s*\*\s*AVTP_QUADLET_SIZE\s*\)?$', val)
    if not m:
        raise InventoryError('cannot evaluate header-length macro %r' % val)
    return int(m.group(1)) * 4


if __name__ == '__main__':
    inv = build(sys.argv[1] if len(sys.argv) > 1 else '/repo')
    n = sum(len(h['protos']) for h in inv['headers'].values())
    json.dump(inv, sys.stdout, indent=1)
    sys.stderr.write('%d headers, %d prototypes\n' % (len(inv['headers']), n))
