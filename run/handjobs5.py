#!/usr/bin/env python3
"""Example programs: ACF-CAN listener receive path (C18), ACF-CAN talker packet builder and
listener transparency (C19).  The example .c file is #included unmodified into the harness
TU (its main renamed by a macro); library callees are replaced by their contracts; the
POSIX environment (recv, write, clock_gettime, perror) and memcpy get trusted contracts
or stubs, each listed as an assumption."""
import os

from vplib import Job, VERIF, REPO

# example obligations link the whole library (precompiled once per run): a library function the example starts to call is
# then inlined with its real body instead of being an undefined function
LIBSRC = ['src/avtp/Utils.c']
from handjobs2 import hand_tu

ENV_ASSUME = [
    'trusted environment contracts: recv (fills at most len bytes, returns -1..len), write (reads n bytes, returns -1..n), clock_gettime, perror (no effect)',
    'memcpy replaced by a trusted contract (destination writable, source readable, bytes copied - ghost index) because the CPROVER model with a symbolic length is intractable; memset uses the CPROVER model',
    'only the receive/build functions of the examples are under contract; main(), argument parsing and socket set-up are not',
]

ENV = r'''
#include <sys/types.h>
#include <sys/socket.h>
#include <unistd.h>
#include <time.h>
size_t vp_mc_i;
ssize_t recv(int fd, void *buf, size_t len, int flags)
__CPROVER_requires(__CPROVER_w_ok(buf, len))
__CPROVER_assigns(__CPROVER_object_upto((unsigned char *)buf, len))
__CPROVER_ensures(__CPROVER_return_value >= -1 && __CPROVER_return_value <= (ssize_t)len)
#ifdef VP_RECV_MAX      /* bounded FALLBACK build only: short datagrams */
__CPROVER_ensures(__CPROVER_return_value <= VP_RECV_MAX)
#endif
;
void *memcpy(void *dst, const void *src, size_t n)
__CPROVER_requires(__CPROVER_w_ok(dst, n) && __CPROVER_r_ok(src, n))
__CPROVER_assigns(n != 0 : __CPROVER_object_upto((unsigned char *)dst, n))
__CPROVER_ensures(__CPROVER_return_value == dst)
__CPROVER_ensures(vp_mc_i < n ==> ((unsigned char *)dst)[vp_mc_i] == ((const unsigned char *)src)[vp_mc_i])
;
int clock_gettime(clockid_t id, struct timespec *tp)
__CPROVER_requires(__CPROVER_w_ok(tp, sizeof(struct timespec)))
__CPROVER_assigns(*tp)
__CPROVER_ensures(__CPROVER_return_value == 0 || __CPROVER_return_value == -1)
;
void perror(const char *s) { }
'''

WRITE_CONTRACT = r'''
ssize_t write(int fd, const void *buf, size_t n)
__CPROVER_requires(__CPROVER_r_ok(buf, n))
__CPROVER_assigns()
__CPROVER_ensures(__CPROVER_return_value >= -1 && __CPROVER_return_value <= (ssize_t)n)
;
'''

LISTENER_GETTERS = {
    'udp': ['Avtp_Udp_GetEncapsulationSeqNo'], 'common': ['Avtp_CommonHeader_GetSubtype'],
    'tscf': ['Avtp_Tscf_GetStreamDataLength'], 'ntscf': ['Avtp_Ntscf_GetNtscfDataLength'],
    'acf_common': ['Avtp_AcfCommon_GetAcfMsgType'],
    'can': ['Avtp_Can_GetCanIdentifier', 'Avtp_Can_GetAcfMsgLength', 'Avtp_Can_GetEff', 'Avtp_Can_GetRtr', 'Avtp_Can_GetBrs',
            'Avtp_Can_GetFdf', 'Avtp_Can_GetEsi', 'Avtp_Can_GetPad'],
}

NP_LOOP = ('INV: msg_proc_bytes <= msg_length && (unsigned long)msg_length + proc_bytes <= (unsigned long)pdu_length && pdu_length <= 1500 && proc_bytes <= 28\n'
           'DEC: msg_length - msg_proc_bytes\n'
           'ASG: msg_proc_bytes, acf_pdu, can_id, can_payload, acf_msg_length, pad_length, can_payload_length, res, frame\n')
NP_SYMS = ['msg_proc_bytes', 'msg_length', 'proc_bytes', 'pdu_length', 'acf_pdu', 'can_id', 'can_payload', 'acf_msg_length',
           'pad_length', 'can_payload_length', 'res', 'frame']


def _gen(model, need):
    import gen_contracts as G
    tu = G.TU()
    tu.add(G.PRELUDE)
    for k, v in need.items():
        tu.extend(G.format_contracts(model, model['fmts'][k], needed=set(v)))
    tu.tags = {}
    return tu


def prepare_contract_lines():
    """Contract of the talker's per-frame builder (enforced by examples/acf-can-talker/prepare_acf_packet, used by the talker main loop)."""
    return [
        ('static int prepare_acf_packet(uint8_t* acf_pdu, frame_t frame)', None),
        ('__CPROVER_requires((unsigned)can_variant <= 1u && vp_extra <= 8 && VP_LEN <= (VP_FD ? 64u : 8u))', None),
        ('__CPROVER_requires((VP_ID & CAN_EFF_FLAG) || (VP_ID & CAN_EFF_MASK) <= CAN_SFF_MASK)', None),
        # can_frame.len and canfd_frame.len are the same byte of the union (offset 4 in both); DFCC's by-value
        # parameter wrapper does not see the aliasing, so it is stated
        ('__CPROVER_requires(frame.cc.len == frame.fd.len && frame.cc.can_id == frame.fd.can_id)', None),
        ('__CPROVER_requires(__CPROVER_is_fresh(acf_pdu, 16u + VP_LEN + VP_PADOF(VP_LEN) + vp_extra))', None),
        ('__CPROVER_assigns(__CPROVER_object_upto(acf_pdu, 16u + VP_LEN + VP_PADOF(VP_LEN)))', None),
        ('__CPROVER_ensures(__CPROVER_return_value == (int)(16u + VP_LEN + VP_PADOF(VP_LEN)))', 'C19:builder-returns-the-bytes-occupied-by-the-acf-message'),
        ('__CPROVER_ensures(vp_get_bits(acf_pdu, 0, 7) == 1u && vp_get_bits(acf_pdu, 7, 9) == (16u + VP_LEN + VP_PADOF(VP_LEN)) / 4u && vp_get_bits(acf_pdu, 16, 2) == VP_PADOF(VP_LEN))', 'C19:type-length-pad'),
        ('__CPROVER_ensures(vp_get_bits(acf_pdu, 19, 1) == ((VP_ID & CAN_RTR_FLAG) != 0))', 'C19:remote-flag-carried'),
        ('__CPROVER_ensures(vp_get_bits(acf_pdu, 20, 1) == ((VP_ID & CAN_EFF_FLAG) != 0))', 'C19:extended-flag-carried'),
        ('__CPROVER_ensures(vp_get_bits(acf_pdu, 22, 1) == (VP_FD ? 1u : 0u))', 'C19:fd-flag'),
        ('__CPROVER_ensures(VP_FD ==> (vp_get_bits(acf_pdu, 21, 1) == ((frame.fd.flags & CANFD_BRS) != 0) && vp_get_bits(acf_pdu, 23, 1) == ((frame.fd.flags & CANFD_ESI) != 0)))', 'C19:brs-esi-carried'),
        ('__CPROVER_ensures(vp_get_bits(acf_pdu, 99, 29) == (VP_ID & CAN_EFF_MASK))', 'C19:identifier-carried'),
        ('__CPROVER_ensures(vp_i < VP_LEN ==> acf_pdu[16u + vp_i] == VP_DATA(vp_i))', 'C19:data-carried'),
        ('__CPROVER_ensures(vp_j < VP_PADOF(VP_LEN) ==> acf_pdu[16u + VP_LEN + vp_j] == 0)', 'C19:pad-zero'),
        (';', None)]


def example_jobs(model, tier, config='le'):
    jobs = []
    inc = [os.path.join(REPO, 'examples')]
    # ------------------------------------------------------------------ C18: CAN listener, any datagram
    tu = _gen(model, LISTENER_GETTERS)
    tu.add('size_t vp_i, vp_j, vp_extra;\n#include "can.h"\n' + ENV + WRITE_CONTRACT)
    tu.add('#define main vp_listener_main\n#include "acf-can/acf-can-listener.c"\n#undef main\n')
    start = len(tu.lines)
    tu.add('static int new_packet(int sk_fd, int can_socket)\n'
           '__CPROVER_requires(use_udp <= 1 && (unsigned)can_variant <= 1u)\n'
           '__CPROVER_assigns()\n'
           '__CPROVER_ensures(__CPROVER_return_value >= 0)\n;')
    tu.tags[start + 4] = 'C18:receive-path-returns-and-can-take-the-next-datagram'
    tu.add('void harness(void)\n{\n    use_udp = nondet_u8(); can_variant = (Avtp_CanVariant_t)nondet_uint(); vp_mc_i = nondet_size();\n'
           '    new_packet(nondet_int(), nondet_int());\n    VP_CANARY();\n}\n')
    repl = [g for v in LISTENER_GETTERS.values() for g in v] + ['Avtp_Can_GetPayload', 'recv', 'write', 'memcpy']
    # fallback when the loop contract cannot be attached to the message loop as written now: plain bounded model checking of the
    # real listener with the real library inlined (no contract instrumentation), datagrams of at most VP_FB_DGRAM bytes
    fb_src = ('#include <stdlib.h>\n#include <sys/types.h>\n#include <sys/socket.h>\n#include <unistd.h>\n#include <linux/can.h>\n#include "vp_env.h"\n'
              'void perror(const char *s) { }\n'
              'void *memcpy(void *d, const void *s, size_t n) { for (unsigned i = 0; i < 72; i++) if (i < n) ((unsigned char *)d)[i] = ((const unsigned char *)s)[i]; __CPROVER_assert(n <= 72, "C18: memcpy of at most one CAN FD frame"); return d; }\n'
              '#define VP_FB_DGRAM 64\n'
              'ssize_t recv(int fd, void *bufv, size_t cap, int flags) { unsigned char *b = bufv; ssize_t n = (ssize_t)nondet_size(); __CPROVER_assume(n >= -1 && n <= VP_FB_DGRAM && (size_t)n <= cap || n == -1);\n'
              '    for (unsigned i = 0; i < VP_FB_DGRAM; i++) if ((ssize_t)i < n) b[i] = nondet_u8(); return n; }\n'
              'ssize_t write(int fd, const void *bufv, size_t n) { __CPROVER_assert(__CPROVER_r_ok(bufv, n), "C18: frame handed to the CAN socket is readable"); ssize_t r = (ssize_t)nondet_size(); __CPROVER_assume(r >= -1 && r <= (ssize_t)n); return r; }\n'
              'static uint8_t use_udp;\n'
              '#define main vp_listener_main\n#include "acf-can/acf-can-listener.c"\n#undef main\n'
              'void harness(void)\n{\n    use_udp = nondet_u8(); can_variant = (Avtp_CanVariant_t)nondet_uint();\n'
              '    __CPROVER_assume(use_udp <= 1 && (unsigned)can_variant <= 1u);\n'
              '    int r = new_packet(nondet_int(), nondet_int());\n'
              '    __CPROVER_assert(r >= 0, "C18: receive path returns and can take the next datagram");\n    VP_CANARY();\n}\n')
    fb = Job('examples/acf-can-listener/new_packet~bounded-fallback', fb_src,
             ['src/avtp/Utils.c', 'src/avtp/Udp.c', 'src/avtp/CommonHeader.c', 'src/avtp/acf/Tscf.c', 'src/avtp/acf/Ntscf.c', 'src/avtp/acf/AcfCommon.c', 'src/avtp/acf/Can.c'],
             no_dfcc=True, owners={'assert': ['C18'], 'safety': ['C18'], 'unwind': ['C18']},
             function='acf-can-listener.c:new_packet', kind='example-fallback', config=config, includes=inc, timeout=2400, obj_bits=12,
             unwind={'*repo*': 6, 'memcpy': 74, 'recv': 66}, solver='kissat', assumptions=ENV_ASSUME,
             bounded='BOUNDED FALLBACK (loop contract not attachable): plain bounded model checking of the real listener and library, datagrams of at most 64 bytes '
                     '(at most 3 ACF messages), loops unwound 6 times with unwinding assertions')
    # (bounded unwinding fallbacks UNDER DFCC for this loop were tried twice - 64-byte datagrams / 5 unwindings and 48-byte datagrams / 4
    # unwindings - and did not finish in 30 and 40 minutes: when the message loop is rewritten so that the loop contract no longer
    # attaches, this obligation ends undecided)
    jobs.append(Job('examples/acf-can-listener/new_packet', tu.text(), LIBSRC, enforce='new_packet', replace=repl,
                    loop_contracts={'new_packet': [{'template': NP_LOOP, 'symbols': NP_SYMS}]},
                    owners={'post': ['C18'], 'safety': ['C18'], 'assigns': ['C18'], 'loop': ['C18']}, clause_map=dict(tu.tags),
                    function='acf-can-listener.c:new_packet', kind='example', config=config, includes=inc, timeout=1800,
                    obj_bits=10, assumptions=ENV_ASSUME, fallback=fb))
    # ------------------------------------------------------------------ C19: talker's per-frame builder
    tu = _gen(model, {'can': ['Avtp_Can_Init', 'Avtp_Can_SetField', 'Avtp_Can_GetAcfMsgLength']})
    tu.add('size_t vp_i, vp_j, vp_extra;\n#include "can.h"\n' + ENV + WRITE_CONTRACT)
    tu.add('#define main vp_talker_main\n#include "acf-can/acf-can-talker.c"\n#undef main\n')
    tu.add('#define VP_FD (can_variant == AVTP_CAN_FD)\n'
           '#define VP_LEN ((unsigned)frame.fd.len)\n'
           '#define VP_ID (frame.fd.can_id)\n'
           '#define VP_DATA(i) (VP_FD ? frame.fd.data[i] : frame.cc.data[i])\n')
    start = len(tu.lines)
    lines = prepare_contract_lines()
    for i, (l, tag) in enumerate(lines):
        tu.add(l)
        if tag:
            tu.tags[start + i + 1] = tag
    tu.add('void harness(void)\n{\n    can_variant = (Avtp_CanVariant_t)nondet_uint(); vp_mc_i = nondet_size();\n'
           '    vp_i = nondet_size(); vp_j = nondet_size(); vp_extra = nondet_size();\n'
           '    vp_wx = 0;   /* slack ghost of the replaced Avtp_Can_Init contract instance */\n'
           '    uint8_t *acf_pdu; frame_t frame;\n    prepare_acf_packet(acf_pdu, frame);\n    VP_CANARY();\n}\n')
    jobs.append(Job('examples/acf-can-talker/prepare_acf_packet', tu.text(), LIBSRC, enforce='prepare_acf_packet',
                    replace=['Avtp_Can_Init', 'Avtp_Can_SetField', 'Avtp_Can_CreateAcfMessage', 'Avtp_Can_GetAcfMsgLength', 'clock_gettime'],
                    owners={'post': ['C19'], 'safety': ['C19'], 'assigns': ['C19']}, clause_map=dict(tu.tags),
                    function='acf-can-talker.c:prepare_acf_packet', kind='example', config=config, includes=inc, timeout=1800,
                    obj_bits=10, assumptions=ENV_ASSUME + ['can_id well-formed per SocketCAN: without CAN_EFF_FLAG the identifier fits 11 bits']))
    jobs.append(transparency_job(model, tier, config))
    return jobs


# ------------------------------------------------------------------ C19: listener transparency (BOUNDED)
TRANSP = r'''
#define VP_NF %(NF)d
struct vp_frame { uint32_t id; uint8_t eff, rtr, brs, fdf, esi, len, bus; uint64_t ts; uint8_t data[64]; };
unsigned vp_nf;                       /* frames carried by the packet */
struct vp_frame vp_f[VP_NF];          /* the frames handed to the talker (ghost) */
unsigned vp_subtype, vp_seq;          /* control format of the packet */
unsigned vp_log_n;                    /* ghost log of what the listener writes to the CAN socket */
uint8_t vp_log[VP_NF + 1][sizeof(struct canfd_frame)];
size_t vp_log_size[VP_NF + 1];
#define VP_PADOF(len) ((4u - ((unsigned)(len) %% 4u)) %% 4u)

static void vp_put_field(uint8_t *hdr, unsigned hlen, unsigned s, unsigned n, uint64_t v)
{
    for (unsigned b = 0; b < 32; b++)
        if (b < hlen) hdr[b] = vp_put_byte(hdr[b], b, s, n, v);
}

/* recv stub: delivers the REFERENCE ENCODING (spec/vp_spec.h, not the library) of the ghost frames */
ssize_t recv(int fd, void *bufv, size_t cap, int flags)
{
    uint8_t *buf = bufv;
    unsigned off = 0, cf, total = 0;
    for (unsigned k = 0; k < VP_NF; k++)
        if (k < vp_nf) total += 16u + vp_f[k].len + VP_PADOF(vp_f[k].len);
    if (use_udp) { buf[0] = (uint8_t)(vp_seq >> 24); buf[1] = (uint8_t)(vp_seq >> 16); buf[2] = (uint8_t)(vp_seq >> 8); buf[3] = (uint8_t)vp_seq; off = 4; }
    cf = off;
    if (vp_subtype == 0x05u) {          /* TSCF: 24-byte header, stream_data_length 160/16 */
        for (unsigned b = 0; b < 24; b++) buf[cf + b] = 0;
        vp_put_field(buf + cf, 24, 0, 8, 0x05); vp_put_field(buf + cf, 24, 8, 1, 1); vp_put_field(buf + cf, 24, 160, 16, total);
        off += 24;
    } else {                            /* NTSCF: 12-byte header, ntscf_data_length 13/11 */
        for (unsigned b = 0; b < 12; b++) buf[cf + b] = 0;
        vp_put_field(buf + cf, 12, 0, 8, 0x82); vp_put_field(buf + cf, 12, 8, 1, 1); vp_put_field(buf + cf, 12, 13, 11, total);
        off += 12;
    }
    for (unsigned k = 0; k < VP_NF; k++) {
        if (k >= vp_nf) break;
        uint8_t *a = buf + off;
        unsigned len = vp_f[k].len, pad = VP_PADOF(len);
        for (unsigned b = 0; b < 16; b++) a[b] = 0;
        vp_put_field(a, 16, 0, 7, 1); vp_put_field(a, 16, 7, 9, (16u + len + pad) / 4u); vp_put_field(a, 16, 16, 2, pad);
        vp_put_field(a, 16, 18, 1, 1); vp_put_field(a, 16, 19, 1, vp_f[k].rtr); vp_put_field(a, 16, 20, 1, vp_f[k].eff);
        vp_put_field(a, 16, 21, 1, vp_f[k].brs); vp_put_field(a, 16, 22, 1, vp_f[k].fdf); vp_put_field(a, 16, 23, 1, vp_f[k].esi);
        vp_put_field(a, 16, 27, 5, vp_f[k].bus); vp_put_field(a, 16, 32, 64, vp_f[k].ts); vp_put_field(a, 16, 99, 29, vp_f[k].id);
        for (unsigned i = 0; i < 64; i++) if (i < len) a[16 + i] = vp_f[k].data[i];
        for (unsigned i = 0; i < 3; i++) if (i < pad) a[16 + len + i] = 0;
        off += 16u + len + pad;
    }
    return (ssize_t)off;
}

/* write stub: appends the frame to the ghost log */
ssize_t write(int fd, const void *bufv, size_t n)
{
    const uint8_t *b = bufv;
    if (vp_log_n <= VP_NF) {
        vp_log_size[vp_log_n] = n;
        for (unsigned i = 0; i < sizeof(struct canfd_frame); i++) if (i < n) vp_log[vp_log_n][i] = b[i];
    }
    vp_log_n++;
    return (ssize_t)n;
}
'''


def transparency_job(model, tier, config='le'):
    """Plain bounded model checking of the real listener + real library (no DFCC): a bounded stand-in."""
    NF = 2 if tier == 'quick' else 3
    inc = [os.path.join(REPO, 'examples')]
    src = ('#include <stdlib.h>\n#include <sys/types.h>\n#include <sys/socket.h>\n#include <unistd.h>\n#include <linux/can.h>\n'
           '#include "vp_env.h"\n#include "vp_spec.h"\n'
           'size_t vp_i;\nvoid perror(const char *s) { }\n'
           '/* bounded executable stand-in for memcpy (all copies in this path are <= 72 bytes) */\n'
           'void *memcpy(void *d, const void *s, size_t n) { for (unsigned i = 0; i < 72; i++) if (i < n) ((unsigned char *)d)[i] = ((const unsigned char *)s)[i]; __CPROVER_assert(n <= 72, "memcpy stand-in bound"); return d; }\n'
           'static uint8_t use_udp;\n')
    src += TRANSP % {'NF': NF}
    src += '#define main vp_listener_main\n#include "acf-can/acf-can-listener.c"\n#undef main\n'
    checks = ['__CPROVER_assert(r == 1 && vp_log_n == vp_nf, "C19: every frame of the packet comes out exactly once");']
    for k in range(NF):
        fr = '((struct canfd_frame *)vp_log[%d])' % k
        exp_id = '(vp_f[%d].id | (vp_f[%d].eff ? CAN_EFF_FLAG : 0u) | (vp_f[%d].rtr ? CAN_RTR_FLAG : 0u))' % (k, k, k)
        checks.append('if (%du < vp_nf) {' % k)
        checks.append('  __CPROVER_assert(%s->can_id == %s, "C19: frame %d identifier and EFF/RTR flags");' % (fr, exp_id, k))
        checks.append('  __CPROVER_assert(%s->len == vp_f[%d].len, "C19: frame %d length");' % (fr, k, k))
        checks.append('  if (vp_i < vp_f[%d].len) __CPROVER_assert(%s->data[vp_i] == vp_f[%d].data[vp_i], "C19: frame %d data");' % (k, fr, k, k))
        checks.append('  if (can_variant == AVTP_CAN_FD) __CPROVER_assert(%s->flags == ((vp_f[%d].brs ? CANFD_BRS : 0) | (vp_f[%d].fdf ? CANFD_FDF : 0) | (vp_f[%d].esi ? CANFD_ESI : 0)), "C19: frame %d FD flags (not inherited from earlier frames)");' % (fr, k, k, k, k))
        checks.append('  __CPROVER_assert(vp_log_size[%d] == (can_variant == AVTP_CAN_FD ? sizeof(struct canfd_frame) : sizeof(struct can_frame)), "C19: frame %d size");' % (k, k))
        checks.append('}')
    hv = ''.join('    vp_f[%d].id = nondet_u32(); vp_f[%d].eff = nondet_u8(); vp_f[%d].rtr = nondet_u8(); vp_f[%d].brs = nondet_u8(); vp_f[%d].fdf = nondet_u8(); '
                 'vp_f[%d].esi = nondet_u8(); vp_f[%d].len = nondet_u8(); vp_f[%d].bus = nondet_u8(); vp_f[%d].ts = nondet_u64();\n'
                 '    for (unsigned i = 0; i < 64; i++) vp_f[%d].data[i] = nondet_u8();\n'
                 '    __CPROVER_assume(vp_f[%d].id <= 0x1fffffffu && vp_f[%d].eff <= 1 && vp_f[%d].rtr <= 1 && vp_f[%d].brs <= 1 && vp_f[%d].fdf <= 1 && vp_f[%d].esi <= 1 && vp_f[%d].bus <= 31 && '
                 'vp_f[%d].len <= (can_variant == AVTP_CAN_FD ? 64 : 8) && (vp_f[%d].eff || vp_f[%d].id <= 0x7ffu));\n' % ((k,) * 20) for k in range(NF))
    src += ('void harness(void)\n{\n    use_udp = nondet_u8(); can_variant = (Avtp_CanVariant_t)nondet_uint(); vp_i = nondet_size();\n'
            '    vp_nf = nondet_uint(); vp_subtype = nondet_uint(); vp_seq = nondet_uint(); vp_log_n = 0;\n'
            '    __CPROVER_assume(use_udp <= 1 && (unsigned)can_variant <= 1u && vp_nf >= 1 && vp_nf <= VP_NF && (vp_subtype == 0x05u || vp_subtype == 0x82u));\n'
            + hv + '    int r = new_packet(nondet_int(), nondet_int());\n    ' + '\n    '.join(checks) + '\n    VP_CANARY();\n}\n')
    bound = ('BOUNDED: packets carrying at most %d CAN frames (every identifier, flag combination, length and data byte symbolic; TSCF/NTSCF, UDP/raw, classic/FD symbolic); '
             'listener loop unwound %d times, generic field loops 4 times, with unwinding assertions; real listener + real library inlined (no contract replacement)' % (NF, NF + 2))
    srcs = ['src/avtp/Utils.c', 'src/avtp/Udp.c', 'src/avtp/CommonHeader.c', 'src/avtp/acf/Tscf.c', 'src/avtp/acf/Ntscf.c',
            'src/avtp/acf/AcfCommon.c', 'src/avtp/acf/Can.c']
    return Job('examples/acf-can-listener/transparency-N%d' % NF, src, srcs, no_dfcc=True,
               owners={'assert': ['C19'], 'safety': ['C19'], 'unwind': ['C19']},
               function='acf-can-listener.c:new_packet', kind='example-bounded', config=config, includes=inc, timeout=3000,
               obj_bits=12, unwind={'new_packet': NF + 2, 'Avtp_GetField': 4, 'Avtp_SetField': 4}, bounded=bound, solver='kissat',
               assumptions=ENV_ASSUME + ['recv and write are executable stubs: recv delivers the reference encoding (vp_spec.h) of ghost frames, write appends to a ghost log',
                                         'memcpy is a bounded executable stand-in (<= 72 bytes, asserted)'])
