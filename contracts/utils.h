/*
 * Interface contracts K_get / K_set of the two generic bit-field routines
 * (src/avtp/Utils.c).  They are attached to re-declarations; the definitions are the
 * unmodified repository sources.
 *
 * The contracts are in quadlet-window form (see spec/vp_spec.h); the meta-lemmas in
 * spec/lemmas tie the window form to the byte-form oracle vp_get_bits / vp_put_byte.
 */
#ifndef VP_CONTRACTS_UTILS_H
#define VP_CONTRACTS_UTILS_H

#include "vp_spec.h"
#include "avtp/Utils.h"

#define VP_D (fieldDescriptors[field])
#define VP_DNQ VP_NQ(VP_D.offset, VP_D.bits)
#define VP_ACTIVE (fieldDescriptors != NULL && pdu != NULL && field < numFields)

/* Weakest precondition under which the body is memory safe and functionally correct:
 * the table is readable, the descriptor is one the routines accept (offset <= 31,
 * width <= 64), the touched quadlets exist in an 8-bit quadlet index space and are
 * accessible. */
#define VP_K_REQUIRES(ACC)                                                            \
    (!VP_ACTIVE ||                                                                    \
     (__CPROVER_r_ok(fieldDescriptors, (size_t)numFields * sizeof(Avtp_FieldDescriptor_t)) && \
      VP_D.offset <= 31 && VP_D.bits <= 64 &&                                         \
      (unsigned)VP_D.quadlet + VP_DNQ <= 256u &&                                      \
      (VP_D.bits == 0 || ACC(pdu + 4u * VP_D.quadlet, 4u * VP_DNQ))))

uint64_t Avtp_GetField(const Avtp_FieldDescriptor_t* fieldDescriptors,
        uint8_t numFields, uint8_t* pdu, uint32_t field)
__CPROVER_requires(VP_K_REQUIRES(__CPROVER_r_ok))
__CPROVER_assigns()
__CPROVER_ensures(!VP_ACTIVE ==> __CPROVER_return_value == 0)
__CPROVER_ensures(VP_ACTIVE ==> __CPROVER_return_value ==
    (VP_D.bits == 0 ? (uint64_t)0
                    : VP_WGET(VP_WINDOW(pdu, VP_D.quadlet, VP_DNQ), VP_D.offset, VP_D.bits)))
;

/* History snapshots (__CPROVER_old) are taken unconditionally at entry, so they must be
 * safe in every pre-state the contract admits; the writer therefore has two contracts:
 *   Avtp_SetField        - the active case (table, pdu non-NULL, id in range)
 *   vp_K_set_inactive    - NULL table / NULL pdu / id out of range: nothing is written
 * Both are enforced on the real body; callers are verified against whichever applies
 * (and the *precondition* of the chosen one is an obligation at the call site). */
#define VP_OLDWB(i) \
    ((VP_T128)(((i) < 4u * VP_DNQ) ? __CPROVER_old(pdu[VP_WIDX(VP_D.quadlet, VP_DNQ, i)]) : 0) << (8 * (11 - (i))))
#define VP_OLDWINDOW                                                                   \
    (VP_OLDWB(0) | VP_OLDWB(1) | VP_OLDWB(2) | VP_OLDWB(3) | VP_OLDWB(4) | VP_OLDWB(5) | \
     VP_OLDWB(6) | VP_OLDWB(7) | VP_OLDWB(8) | VP_OLDWB(9) | VP_OLDWB(10) | VP_OLDWB(11))

void Avtp_SetField(const Avtp_FieldDescriptor_t* fieldDescriptors,
        uint8_t numFields, uint8_t* pdu, uint32_t field, uint64_t value)
__CPROVER_requires(VP_ACTIVE && VP_K_REQUIRES(__CPROVER_w_ok))
__CPROVER_assigns(VP_D.bits != 0 :
        __CPROVER_object_upto(pdu + 4u * VP_D.quadlet, 4u * VP_DNQ))
__CPROVER_ensures(VP_D.bits != 0 ==>
    VP_WINDOW(pdu, VP_D.quadlet, VP_DNQ) ==
        VP_WPUT(VP_OLDWINDOW, VP_D.offset, VP_D.bits, value))
;

void vp_K_set_inactive(const Avtp_FieldDescriptor_t* fieldDescriptors,
        uint8_t numFields, uint8_t* pdu, uint32_t field, uint64_t value)
__CPROVER_requires(!VP_ACTIVE)
__CPROVER_assigns()
;

#endif
