#!/usr/bin/env python3
"""Native replay: turn the verifier's counterexample (witness ghosts vp_w*, read from the
CBMC trace) into a C program that calls the REAL function, compiled by gcc from /repo's
sources with AddressSanitizer, and compares against the natively compiled oracle."""
import json
import os
import subprocess
import tempfile
import shutil

from vplib import REPO, VERIF


def _wit_int(w, key, default=0):
    for k, v in w.items():
        kk = k.replace('l]', ']').replace('L]', ']')
        if kk == key:
            return v
    return default


def parse_witness(raw):
    """raw: lhs -> value dict from the trace.  Returns ints."""
    out = {}
    for lhs, v in raw.items():
        try:
            if isinstance(v, dict):
                if 'binary' in v and v['binary']:
                    out[lhs] = int(v['binary'], 2)
                else:
                    out[lhs] = int(str(v.get('data')).rstrip('uUlL'), 0)
            else:
                out[lhs] = int(str(v).rstrip('uUlL'), 0)
        except Exception:
            pass
    return out


PRE = r'''#include <stdio.h>
#include <stdlib.h>
#include <string.h>
#include <stdint.h>
#include "vp_spec.h"
#include "%(header)s"
static int bad = 0;
#define printf(...) (printf(__VA_ARGS__), fflush(stdout))
#define CHECK(c, ...) do { if (!(c)) { bad = 1; printf("MISMATCH: " __VA_ARGS__); printf("\n"); } } while (0)
'''


def _buf_init(H, w, name='in'):
    vals = [_wit_int(w, 'vp_w[%d]' % k) & 0xff for k in range(H)]
    return 'static const uint8_t %s[%d] = {%s};\n' % (name, H, ','.join('0x%02x' % v for v in vals))


def make_native(job, w):
    r = job.replay
    if not r:
        return None
    k = r['kind']
    H = r.get('H', 0)
    src = (PRE % r) if 'header' in r else ''
    wv = _wit_int(w, 'vp_wv')
    wf = _wit_int(w, 'vp_wf')
    wx = _wit_int(w, 'vp_wx')
    T = r.get('T')
    if k == 'getter':
        src += _buf_init(H, w)
        src += 'int main(void){ uint8_t *b = malloc(%d); memcpy(b, in, %d);\n' % (H, H)
        src += '  uint64_t got = (uint64_t)%s((%s*)b); uint64_t want = vp_get_bits(in, %d, %d);\n' % (r['func'], T, r['s'], r['n'])
        src += '  CHECK(got == want, "%s returned %%llu, wire bits are %%llu", (unsigned long long)got, (unsigned long long)want);\n' % r['func']
        src += '  CHECK(memcmp(b, in, %d) == 0, "buffer modified by a read");\n' % H
        src += '  printf(bad ? "REPRODUCED\\n" : "NOT-REPRODUCED\\n"); return bad; }\n'
        return src
    if k in ('getfield', 'legacy-get'):
        src += _buf_init(H, w)
        src += 'int main(void){ uint8_t *b = malloc(%d); memcpy(b, in, %d); unsigned f = %uu; uint64_t want = 0; int known = 0;\n' % (H, H, wf)
        for e, (s, n) in r['rows'].items():
            src += '  if (f == (unsigned)%s) { want = vp_get_bits(in, %d, %d); known = 1; }\n' % (e, s, n)
        if k == 'getfield':
            src += '  uint64_t got = %s((%s*)b, (%s)f);\n' % (r['func'], T, r['E'])
            src += '  if (f >= (unsigned)%s) { want = 0; known = 1; }\n' % r['MAX']
            src += '  CHECK(known && got == want, "%s(id=%%u) returned %%llu, expected %%llu", f, (unsigned long long)got, (unsigned long long)want);\n' % r['func']
        else:
            src += '  %s val = (%s)0x5a5a5a5a5a5a5a5aull; int rc = %s((void*)b, (%s)f, &val);\n' % (r['vt'], r['vt'], r['func'], r['E'])
            src += '  CHECK(rc == 0 && known && (uint64_t)val == want, "%s(id=%%u) rc=%%d val=%%llu, expected %%llu", f, rc, (unsigned long long)val, (unsigned long long)want);\n' % r['func']
        src += '  CHECK(memcmp(b, in, %d) == 0, "buffer modified by a read");\n' % H
        src += '  printf(bad ? "REPRODUCED\\n" : "NOT-REPRODUCED\\n"); return bad; }\n'
        return src
    if k in ('setter', 'fit'):
        src += _buf_init(H, w)
        src += 'int main(void){ uint8_t *b = malloc(%d); memcpy(b, in, %d); uint64_t v = %uull;\n' % (H, H, wv)
        if k == 'fit':
            src += '  %s((%s*)b, v);\n' % (r['func'], T)
            src += '  CHECK(vp_get_bits(b, %d, %d) == v, "value %%llu fits the %d-bit field but reads back as %%llu", (unsigned long long)v, (unsigned long long)vp_get_bits(b, %d, %d));\n' % (r['s'], r['n'], r['n'], r['s'], r['n'])
        else:
            src += '  %s((%s*)b, (%s)v);\n' % (r['func'], T, r['vt'])
            src += '  for (unsigned k = 0; k < %d; k++) CHECK(b[k] == vp_put_byte(in[k], k, %d, %d, (uint64_t)(%s)v), "byte %%u is 0x%%02x, expected 0x%%02x", k, b[k], vp_put_byte(in[k], k, %d, %d, (uint64_t)(%s)v));\n' % (H, r['s'], r['n'], r['vt'], r['s'], r['n'], r['vt'])
        src += '  printf(bad ? "REPRODUCED\\n" : "NOT-REPRODUCED\\n"); return bad; }\n'
        return src
    if k in ('setfield', 'legacy-set', 'setfield-inactive'):
        src += _buf_init(H, w)
        src += 'int main(void){ uint8_t *b = malloc(%d); memcpy(b, in, %d); uint64_t v = %uull; unsigned f = %uu; int s = 0, n = 0;\n' % (H, H, wv, wf)
        for e, (s, n) in r.get('rows', {}).items():
            src += '  if (f == (unsigned)%s) { s = %d; n = %d; }\n' % (e, s, n)
        if k == 'legacy-set':
            src += '  int rc = %s((void*)b, (%s)f, (%s)v); CHECK(rc == 0, "rc=%%d", rc); v = (uint64_t)(%s)v;\n' % (r['func'], r['E'], r['vt'], r['vt'])
        else:
            src += '  %s((%s*)b, (%s)f, v);\n' % (r['func'], T, r['E'])
        src += '  for (unsigned k = 0; k < %d; k++) CHECK(b[k] == vp_put_byte(in[k], k, s, n, v), "byte %%u is 0x%%02x, expected 0x%%02x", k, b[k], vp_put_byte(in[k], k, s, n, v));\n' % H
        src += '  printf(bad ? "REPRODUCED\\n" : "NOT-REPRODUCED\\n"); return bad; }\n'
        return src
    if k == 'init':
        ex = min(wx, 8)
        src += _buf_init(H, w)
        src += 'static const uint8_t img[%d] = {%s};\n' % (H, ','.join('0x%02x' % v for v in r['img']))
        src += 'int main(void){ uint8_t *b = malloc(%d); memcpy(b, in, %d); memset(b + %d, 0xa5, %d);\n' % (H + ex, H, H, ex)
        src += '  %s((%s*)b);\n' % (r['func'], T)
        src += '  for (unsigned k = 0; k < %d; k++) CHECK(b[k] == img[k], "header byte %%u is 0x%%02x, canonical 0x%%02x", k, b[k], img[k]);\n' % H
        src += '  for (unsigned k = %d; k < %d; k++) CHECK(b[k] == 0xa5, "trailing byte %%u modified", k);\n' % (H, H + ex)
        src += '  printf(bad ? "REPRODUCED\\n" : "NOT-REPRODUCED\\n"); return bad; }\n'
        return src
    if k == 'null':
        src += 'uint64_t vp_wv = %uull;\n' % wv
        src += 'int main(void){ %s; printf("NOT-REPRODUCED\\n"); return 0; }\n' % r['call']
        return src
    if k == 'custom':
        # hand-written replay template: a C program text with %(name)s placeholders for witnesses
        try:
            d = dict(r)
            d.update({'wv': wv, 'wf': wf, 'wx': wx})
            d['wbytes'] = ','.join('0x%02x' % (_wit_int(w, 'vp_w[%d]' % i) & 0xff) for i in range(r.get('nw', 40)))
            return r['template'] % d
        except Exception:
            return None
    return None


def run_native(ctext, job, workdir=None):
    """Compile against the real sources with ASan/UBSan and run. Returns (reproduced, output)."""
    wd = workdir or tempfile.mkdtemp(prefix='vp_replay_', dir='/tmp')
    own = workdir is None
    try:
        cf = os.path.join(wd, 'replay.c')
        open(cf, 'w').write(ctext)
        exe = os.path.join(wd, 'replay')
        srcs = [os.path.join(REPO, s) for s in job.sources]
        cmd = ['gcc', '-w', '-g', '-O0', '-fsanitize=address,undefined', '-fno-sanitize-recover=all',
               '-I' + os.path.join(REPO, 'include'), '-I' + os.path.join(VERIF, 'spec'), cf] + srcs + ['-o', exe]
        p = subprocess.run(cmd, capture_output=True, text=True, timeout=120)
        if p.returncode != 0:
            return False, 'native build failed: ' + p.stderr[-1500:]
        env = dict(os.environ, ASAN_OPTIONS='detect_leaks=0:abort_on_error=0', UBSAN_OPTIONS='print_stacktrace=1')
        p = subprocess.run([exe], capture_output=True, text=True, timeout=60, env=env)
        out = (p.stdout + p.stderr)[-3000:]
        reproduced = ('REPRODUCED' in p.stdout and 'NOT-REPRODUCED' not in p.stdout) or \
                     ('AddressSanitizer' in p.stderr) or ('runtime error' in p.stderr) or (p.returncode not in (0,) and 'NOT-REPRODUCED' not in p.stdout)
        return reproduced, out
    except Exception as e:
        return False, 'native replay error: %r' % (e,)
    finally:
        if own:
            shutil.rmtree(wd, ignore_errors=True)
