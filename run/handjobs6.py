#!/usr/bin/env python3
"""C18, AAF listener (examples/aaf/aaf-listener.c): receive path new_packet and the helpers it
relies on (is_valid_packet, schedule_sample, get_presentation_time, arm_timer).  Each function
is enforced against its own contract; callees are replaced by contracts.

Ghost vp_env_failed: set (only) by the trusted environment contracts when a system call
fails, so that "returns -1 only if the environment failed" can be stated."""
import os
import re

from vplib import Job, REPO

# example obligations link the whole library (precompiled once per run): a library function the example starts to call is
# then inlined with its real body instead of being an undefined function
LIBSRC = ['src/avtp/Utils.c']

ENV2 = r'''
#include <stdio.h>
#include <stdlib.h>
#include <sys/types.h>
#include <sys/socket.h>
#include <sys/timerfd.h>
#include <unistd.h>
#include <time.h>
int vp_env_failed;        /* ghost: some system call reported failure */
extern const void *__CPROVER_alloca_object;   /* CPROVER's alloca model writes it */
size_t vp_mc_i;
ssize_t recv(int fd, void *buf, size_t len, int flags)
__CPROVER_requires(__CPROVER_w_ok(buf, len))
__CPROVER_assigns(__CPROVER_object_upto((unsigned char *)buf, len); vp_env_failed)
__CPROVER_ensures(__CPROVER_return_value >= -1 && __CPROVER_return_value <= (ssize_t)len)
__CPROVER_ensures(__CPROVER_return_value < 0 ==> vp_env_failed == 1)
__CPROVER_ensures(__CPROVER_return_value >= 0 ==> vp_env_failed == __CPROVER_old(vp_env_failed))
;
int clock_gettime(clockid_t id, struct timespec *tp)
__CPROVER_requires(__CPROVER_w_ok(tp, sizeof(struct timespec)))
__CPROVER_assigns(*tp; vp_env_failed)
__CPROVER_ensures(__CPROVER_return_value == 0 || __CPROVER_return_value == -1)
__CPROVER_ensures(__CPROVER_return_value < 0 ==> vp_env_failed == 1)
__CPROVER_ensures(__CPROVER_return_value >= 0 ==> (vp_env_failed == __CPROVER_old(vp_env_failed) && tp->tv_sec >= 0 && tp->tv_nsec >= 0 && tp->tv_nsec < 1000000000L))
;
int timerfd_settime(int fd, int flags, const struct itimerspec *nv, struct itimerspec *ov)
__CPROVER_requires(__CPROVER_r_ok(nv, sizeof(struct itimerspec)) && ov == NULL)
__CPROVER_assigns(vp_env_failed)
__CPROVER_ensures(__CPROVER_return_value == 0 || __CPROVER_return_value == -1)
__CPROVER_ensures(__CPROVER_return_value < 0 ==> vp_env_failed == 1)
__CPROVER_ensures(__CPROVER_return_value >= 0 ==> vp_env_failed == __CPROVER_old(vp_env_failed))
;
void *malloc(size_t n)
__CPROVER_assigns(vp_env_failed)
__CPROVER_ensures(__CPROVER_return_value == NULL ==> vp_env_failed == 1)
__CPROVER_ensures(__CPROVER_return_value != NULL ==> (__CPROVER_is_fresh(__CPROVER_return_value, n) && vp_env_failed == __CPROVER_old(vp_env_failed)))
;
void perror(const char *s) { }
int fprintf(FILE *f, const char *fmt, ...) { return 0; }
'''

AAF_ASSUME = [
    'trusted environment contracts: recv, clock_gettime, timerfd_settime (ghost vp_env_failed is set exactly when one of them reports failure); perror/fprintf are no-op stubs',
    'malloc is replaced by a trusted contract (returns NULL and sets the ghost, or a fresh object)',
    'only new_packet and its helpers are under contract; timeout(), main() and socket set-up are not',
]


def _tags(tu_text):
    cm = {}
    for i, l in enumerate(tu_text.split('\n'), 1):
        m = re.search(r'/\*TAG\s+(\S+?)\s*\*/', l)
        if m:
            cm[i] = m.group(1)
    return cm


def _only_new_packet(contracts):
    """The VP_QUEUE_OK macro and the contract of new_packet, without the contracts of the example's internal helpers."""
    lines = contracts.split('\n')
    out, keep = [], False
    for l in lines:
        if l.startswith('#define VP_QUEUE_OK') or l.startswith('/* the sample queue'):
            out.append(l)
            continue
        if l.startswith('static int new_packet('):
            keep = True
        if keep:
            out.append(l)
            if l.strip() == ';':
                keep = False
    return '\n'.join(out) + '\n'


def aaf_listener_jobs(model, tier, config='le'):
    import gen_contracts as G
    inc = [os.path.join(REPO, 'examples')]
    pcm = model['fmts']['pcm']
    com = model['fmts']['common']
    lg = model['spec']['legacy']
    legacy = G.legacy_contracts(model, pcm, lg['pcm']).text() + G.legacy_contracts(model, com, lg['common']).text()
    pre = (G.PRELUDE + '#include "avtp/aaf/Pcm.h"\n#include "avtp/CommonHeader.h"\n' + ENV2 + legacy +
           '#define main vp_aaf_listener_main\n#include "aaf/aaf-listener.c"\n#undef main\n'
           '#include "common/common.c"\n')
    # contracts of the example's own functions (each enforced by one obligation below)
    contracts = r'''
int get_presentation_time(uint64_t avtp_time, struct timespec *tspec)
__CPROVER_requires(__CPROVER_w_ok(tspec, sizeof(struct timespec)))
__CPROVER_assigns(*tspec; vp_env_failed)
__CPROVER_ensures(__CPROVER_return_value == 0 || (__CPROVER_return_value == -1 && vp_env_failed == 1)) /*TAG C18:helper-fails-only-if-the-environment-failed*/
__CPROVER_ensures(__CPROVER_return_value == 0 ==> vp_env_failed == __CPROVER_old(vp_env_failed))
;
int arm_timer(int fd, struct timespec *tspec)
__CPROVER_requires(__CPROVER_r_ok(tspec, sizeof(struct timespec)))
__CPROVER_assigns(vp_env_failed)
__CPROVER_ensures(__CPROVER_return_value == 0 || (__CPROVER_return_value == -1 && vp_env_failed == 1)) /*TAG C18:helper-fails-only-if-the-environment-failed*/
__CPROVER_ensures(__CPROVER_return_value == 0 ==> vp_env_failed == __CPROVER_old(vp_env_failed))
;
static bool is_valid_packet(struct avtp_stream_pdu *pdu)
__CPROVER_requires(__CPROVER_r_ok(pdu, sizeof(struct avtp_stream_pdu)))
__CPROVER_assigns(expected_seq)
__CPROVER_ensures(__CPROVER_return_value == 0 || __CPROVER_return_value == 1)
;
/* the sample queue is well formed: its tail pointer designates a writable link field */
#define VP_QUEUE_OK (samples.stqh_last != NULL && __CPROVER_w_ok(samples.stqh_last, sizeof(struct sample_entry *)))
static int schedule_sample(int fd, struct timespec *tspec, uint8_t *pcm_sample)
__CPROVER_requires(__CPROVER_r_ok(tspec, sizeof(struct timespec)) && __CPROVER_r_ok(pcm_sample, DATA_LEN) && VP_QUEUE_OK)
__CPROVER_assigns(__CPROVER_object_whole(&samples); *samples.stqh_last; vp_env_failed)
__CPROVER_ensures(__CPROVER_return_value == 0 || (__CPROVER_return_value == -1 && vp_env_failed == 1)) /*TAG C18:helper-fails-only-if-the-environment-failed*/
/* success: the tail link now lives in a freshly allocated entry (the link is its first member);
 * failure: the queue tail is what it was */
__CPROVER_ensures(__CPROVER_return_value == 0 ==> __CPROVER_is_fresh(samples.stqh_last, sizeof(struct sample_entry))) /*TAG C18:queue-stays-well-formed-for-the-next-datagram*/
__CPROVER_ensures(__CPROVER_return_value == -1 ==> samples.stqh_last == __CPROVER_old(samples.stqh_last)) /*TAG C18:queue-stays-well-formed-for-the-next-datagram*/
;
static int new_packet(int sk_fd, int timer_fd)
__CPROVER_requires(VP_QUEUE_OK)
__CPROVER_assigns(expected_seq; __CPROVER_object_whole(&samples); *samples.stqh_last; vp_env_failed; __CPROVER_alloca_object)
__CPROVER_ensures(__CPROVER_return_value == 0 || __CPROVER_return_value == -1) /*TAG C18:receive-path-returns*/
__CPROVER_ensures(__CPROVER_return_value == -1 ==> vp_env_failed == 1) /*TAG C18:listener-gives-up-only-if-a-system-call-failed(any-datagram-is-survived)*/
__CPROVER_ensures(VP_QUEUE_OK) /*TAG C18:queue-stays-well-formed-for-the-next-datagram*/
;
'''
    jobs = []

    def mk(name, enforce, replace, body, extra_assume=(), timeout=1800, unwind=None):
        src = pre + contracts + body
        return Job('examples/aaf-listener/' + name, src, LIBSRC, enforce=enforce, replace=replace,
                   owners={'post': ['C18'], 'safety': ['C18'], 'assigns': ['C18'], 'loop': ['C18']}, clause_map=_tags(src),
                   function='aaf-listener.c:' + enforce, kind='example', config=config, includes=inc, timeout=timeout, unwind=unwind,
                   assumptions=AAF_ASSUME + list(extra_assume), fallback=lambda: mono)

    common_havoc = '    expected_seq = nondet_u8(); vp_env_failed = 0; vp_mc_i = nondet_size();\n'
    queue_setup = ('    STAILQ_INIT(&samples);\n'
                   '    if (nondet_bool()) { struct sample_entry *e0 = __CPROVER_allocate(sizeof(*e0), 0); e0->entries.stqe_next = NULL;\n'
                   '                         samples.stqh_first = e0; samples.stqh_last = &e0->entries.stqe_next; }\n')
    np_body = 'void harness(void)\n{\n' + common_havoc + queue_setup + '    new_packet(nondet_int(), nondet_int());\n    VP_CANARY();\n}\n'
    # FALLBACK for all five obligations when the helper contracts no longer fit the helpers as written (changed signature,
    # helper added or removed): new_packet enforced against its contract with the example's own helpers INLINED; only the
    # library wrappers and the environment are replaced by contracts
    mono_src = pre + _only_new_packet(contracts) + np_body
    mono = Job('examples/aaf-listener/new_packet~monolithic-fallback', mono_src, LIBSRC, enforce='new_packet',
               replace=['recv', 'avtp_pdu_get', 'avtp_aaf_pdu_get', 'clock_gettime', 'timerfd_settime', 'malloc'],
               owners={'post': ['C18'], 'safety': ['C18'], 'assigns': ['C18'], 'loop': ['C18'], 'unwind': ['C18']}, clause_map=_tags(mono_src),
               function='aaf-listener.c:new_packet', kind='example-fallback', config=config, includes=inc, timeout=1800,
               unwind={'*repo*': 5}, obj_bits=10,
               assumptions=AAF_ASSUME + ['FALLBACK: helpers inlined instead of replaced by their contracts; every loop of the example is closed by an unwinding assertion with bound 5 (the STAILQ_REMOVE search loop never iterates)'])
    jobs.append(mk('new_packet', 'new_packet',
                   ['recv', 'is_valid_packet', 'avtp_aaf_pdu_get', 'get_presentation_time', 'schedule_sample'], np_body))
    jobs.append(mk('is_valid_packet', 'is_valid_packet', ['avtp_pdu_get', 'avtp_aaf_pdu_get'],
                   'void harness(void)\n{\n' + common_havoc +
                   '    struct avtp_stream_pdu *pdu = __CPROVER_allocate(sizeof(struct avtp_stream_pdu), 0);\n'
                   '    is_valid_packet(pdu);\n    VP_CANARY();\n}\n'))
    jobs.append(mk('schedule_sample', 'schedule_sample', ['arm_timer', 'malloc'],
                   'void harness(void)\n{\n' + common_havoc + queue_setup +
                   '    struct timespec ts; uint8_t sample[DATA_LEN];\n    schedule_sample(nondet_int(), &ts, sample);\n    VP_CANARY();\n}\n',
                   extra_assume=['memcpy of the constant DATA_LEN bytes uses the CPROVER model',
                                 'the search loop of STAILQ_REMOVE is closed by an unwinding assertion with bound 1: it is proved never to iterate (the removed entry is the head)'],
                   unwind={'schedule_sample': 1}))
    jobs.append(mk('get_presentation_time', 'get_presentation_time', ['clock_gettime'],
                   'void harness(void)\n{\n' + common_havoc + '    struct timespec ts;\n    get_presentation_time(nondet_u64(), &ts);\n    VP_CANARY();\n}\n'))
    jobs.append(mk('arm_timer', 'arm_timer', ['timerfd_settime'],
                   'void harness(void)\n{\n' + common_havoc + '    struct timespec ts;\n    arm_timer(nondet_int(), &ts);\n    VP_CANARY();\n}\n'))
    return jobs


CVF_ASSUME = AAF_ASSUME + ['memcpy replaced by a trusted contract (destination writable, source readable) where its length is symbolic']

MEMCPY_CONTRACT = r'''
void *memcpy(void *dst, const void *src, size_t n)
__CPROVER_requires(__CPROVER_w_ok(dst, n) && __CPROVER_r_ok(src, n))
__CPROVER_assigns(n != 0 : __CPROVER_object_upto((unsigned char *)dst, n))
__CPROVER_ensures(__CPROVER_return_value == dst)
;
'''


def cvf_listener_jobs(model, tier, config='le'):
    import gen_contracts as G
    inc = [os.path.join(REPO, 'examples')]
    cvf = model['fmts']['cvf']
    getters = ['Avtp_Cvf_GetSubtype', 'Avtp_Cvf_GetVersion', 'Avtp_Cvf_GetTv', 'Avtp_Cvf_GetStreamId', 'Avtp_Cvf_GetSequenceNum',
               'Avtp_Cvf_GetFormat', 'Avtp_Cvf_GetFormatSubtype', 'Avtp_Cvf_GetStreamDataLength', 'Avtp_Cvf_GetAvtpTimestamp']
    gen = G.format_contracts(model, cvf, needed=set(getters)).text()
    pre = (G.PRELUDE + ENV2 + MEMCPY_CONTRACT + gen +
           '#define main vp_cvf_listener_main\n#include "cvf/cvf-listener.c"\n#undef main\n#include "common/common.c"\n')
    contracts = r'''
int get_presentation_time(uint64_t avtp_time, struct timespec *tspec)
__CPROVER_requires(__CPROVER_w_ok(tspec, sizeof(struct timespec)))
__CPROVER_assigns(*tspec; vp_env_failed)
__CPROVER_ensures(__CPROVER_return_value == 0 || (__CPROVER_return_value == -1 && vp_env_failed == 1))
__CPROVER_ensures(__CPROVER_return_value == 0 ==> vp_env_failed == __CPROVER_old(vp_env_failed))
;
int arm_timer(int fd, struct timespec *tspec)
__CPROVER_requires(__CPROVER_r_ok(tspec, sizeof(struct timespec)))
__CPROVER_assigns(vp_env_failed)
__CPROVER_ensures(__CPROVER_return_value == 0 || (__CPROVER_return_value == -1 && vp_env_failed == 1))
__CPROVER_ensures(__CPROVER_return_value == 0 ==> vp_env_failed == __CPROVER_old(vp_env_failed))
;
static bool is_valid_packet(Avtp_Cvf_t* cvf)
__CPROVER_requires(__CPROVER_r_ok(cvf, sizeof(Avtp_Cvf_t)))
__CPROVER_assigns(expected_seq)
__CPROVER_ensures(__CPROVER_return_value == 0 || __CPROVER_return_value == 1)
;
static uint16_t get_h264_data_len(Avtp_Cvf_t* cvf)
__CPROVER_requires(__CPROVER_r_ok(cvf, sizeof(Avtp_Cvf_t)))
__CPROVER_assigns()
__CPROVER_ensures(__CPROVER_return_value == (uint16_t)(vp_get_bits(cvf->header, 160, 16) - 4u))
;
#define VP_QUEUE_OK (nals.stqh_last != NULL && __CPROVER_w_ok(nals.stqh_last, sizeof(struct nal_entry *)))
static int schedule_nal(int fd, struct timespec *tspec, uint8_t *nal, ssize_t len)
__CPROVER_requires(__CPROVER_r_ok(tspec, sizeof(struct timespec)) && len >= 0 && len <= DATA_LEN && __CPROVER_r_ok(nal, len) && VP_QUEUE_OK)
__CPROVER_assigns(__CPROVER_object_whole(&nals); *nals.stqh_last; vp_env_failed)
__CPROVER_ensures(__CPROVER_return_value == 0 || (__CPROVER_return_value == -1 && vp_env_failed == 1)) /*TAG C18:helper-fails-only-if-the-environment-failed*/
__CPROVER_ensures(__CPROVER_return_value == 0 ==> __CPROVER_is_fresh(nals.stqh_last, sizeof(struct nal_entry))) /*TAG C18:queue-stays-well-formed-for-the-next-datagram*/
__CPROVER_ensures(__CPROVER_return_value == -1 ==> nals.stqh_last == __CPROVER_old(nals.stqh_last)) /*TAG C18:queue-stays-well-formed-for-the-next-datagram*/
;
static int new_packet(int sk_fd, int timer_fd)
__CPROVER_requires(VP_QUEUE_OK)
__CPROVER_assigns(expected_seq; __CPROVER_object_whole(&nals); *nals.stqh_last; vp_env_failed; __CPROVER_alloca_object)
__CPROVER_ensures(__CPROVER_return_value == 0 || __CPROVER_return_value == -1) /*TAG C18:receive-path-returns*/
__CPROVER_ensures(__CPROVER_return_value == -1 ==> vp_env_failed == 1) /*TAG C18:listener-gives-up-only-if-a-system-call-failed(any-datagram-is-survived)*/
__CPROVER_ensures(VP_QUEUE_OK) /*TAG C18:queue-stays-well-formed-for-the-next-datagram*/
;
'''
    jobs = []

    def mk(name, enforce, replace, body, extra_assume=(), timeout=1800, unwind=None):
        src = pre + contracts + body
        return Job('examples/cvf-listener/' + name, src, LIBSRC, enforce=enforce, replace=replace,
                   owners={'post': ['C18'], 'safety': ['C18'], 'assigns': ['C18'], 'loop': ['C18']}, clause_map=_tags(src),
                   function='cvf-listener.c:' + enforce, kind='example', config=config, includes=inc, timeout=timeout, unwind=unwind,
                   assumptions=CVF_ASSUME + list(extra_assume), fallback=lambda: mono)

    hv = '    expected_seq = nondet_u8(); vp_env_failed = 0; vp_mc_i = nondet_size();\n'
    qs = ('    STAILQ_INIT(&nals);\n'
          '    if (nondet_bool()) { struct nal_entry *e0 = __CPROVER_allocate(sizeof(*e0), 0); e0->entries.stqe_next = NULL;\n'
          '                         nals.stqh_first = e0; nals.stqh_last = &e0->entries.stqe_next; }\n')
    np_body = 'void harness(void)\n{\n' + hv + qs + '    new_packet(nondet_int(), nondet_int());\n    VP_CANARY();\n}\n'
    mono_src = pre + _only_new_packet(contracts) + np_body
    mono = Job('examples/cvf-listener/new_packet~monolithic-fallback', mono_src, LIBSRC, enforce='new_packet',
               replace=['recv', 'clock_gettime', 'timerfd_settime', 'malloc', 'memcpy'] + getters,
               owners={'post': ['C18'], 'safety': ['C18'], 'assigns': ['C18'], 'loop': ['C18'], 'unwind': ['C18']}, clause_map=_tags(mono_src),
               function='cvf-listener.c:new_packet', kind='example-fallback', config=config, includes=inc, timeout=1800,
               unwind={'*repo*': 5}, obj_bits=10,
               assumptions=CVF_ASSUME + ['FALLBACK: helpers inlined instead of replaced by their contracts; every loop of the example is closed by an unwinding assertion with bound 5 (the STAILQ_REMOVE search loop never iterates)'])
    jobs.append(mk('new_packet', 'new_packet',
                   ['recv', 'is_valid_packet', 'get_presentation_time', 'get_h264_data_len', 'schedule_nal',
                    'Avtp_Cvf_GetStreamDataLength', 'Avtp_Cvf_GetAvtpTimestamp'], np_body))
    jobs.append(mk('is_valid_packet', 'is_valid_packet', [g for g in getters if g not in ('Avtp_Cvf_GetStreamDataLength', 'Avtp_Cvf_GetAvtpTimestamp')],
                   'void harness(void)\n{\n' + hv + '    Avtp_Cvf_t *cvf = __CPROVER_allocate(sizeof(Avtp_Cvf_t), 0);\n    is_valid_packet(cvf);\n    VP_CANARY();\n}\n'))
    jobs.append(mk('get_h264_data_len', 'get_h264_data_len', ['Avtp_Cvf_GetStreamDataLength'],
                   'void harness(void)\n{\n' + hv + '    Avtp_Cvf_t *cvf = __CPROVER_allocate(sizeof(Avtp_Cvf_t), 0);\n    get_h264_data_len(cvf);\n    VP_CANARY();\n}\n'))
    jobs.append(mk('schedule_nal', 'schedule_nal', ['arm_timer', 'malloc', 'memcpy'],
                   'void harness(void)\n{\n' + hv + qs +
                   '    struct timespec ts; ssize_t len = (ssize_t)nondet_size(); __CPROVER_assume(len >= 0 && len <= DATA_LEN);\n'
                   '    uint8_t *nal = __CPROVER_allocate(len, 0);\n    schedule_nal(nondet_int(), &ts, nal, len);\n    VP_CANARY();\n}\n',
                   extra_assume=['the search loop of STAILQ_REMOVE is closed by an unwinding assertion with bound 1: it is proved never to iterate (the removed entry is the head)'],
                   unwind={'schedule_nal': 1}))
    return jobs
