#!/usr/bin/env python3
"""Evaluate one seeded change (made by an independent sub-agent in its own worktree).

  seedtest.py confirm <id>            confirm in the scratch worktree /tmp/seed/<id>: tests pass with the
                                      change, demo passes without / fails with it
  seedtest.py detect <id> <Cxx> ...   apply the patch to /repo, run the listed checks, undo; record results
  seedtest.py keep <id> <Cxx>         copy patch/demo/meta into /verif/seeded/<id>/

Nothing is ever committed to /repo."""
import json
import os
import shutil
import subprocess
import sys
import time

VERIF = os.path.dirname(os.path.dirname(os.path.abspath(__file__)))
SEED = os.environ.get('SEED_ROOT', '/tmp/seed')


def sh(cmd, cwd=None, timeout=3600):
    p = subprocess.run(cmd, shell=True, cwd=cwd, capture_output=True, text=True, timeout=timeout)
    return p.returncode, (p.stdout + p.stderr)


def confirm(sid):
    wt = os.path.join(SEED, sid)
    out = os.path.join(wt, '_out')
    log = {}
    patch = os.path.join(out, 'patch.diff')
    # state: change applied (agent leaves it applied). Normalise: revert, then apply from patch.diff
    sh('git checkout -- . ', cwd=wt)
    rc, o = sh('git apply --check %s' % patch, cwd=wt)
    log['patch_applies'] = (rc == 0)
    # original: demo must pass
    rc, o = sh('sh _out/build_demo.sh', cwd=wt, timeout=600)
    log['demo_on_original'] = {'rc': rc, 'tail': o[-400:]}
    sh('git apply %s' % patch, cwd=wt)
    rc, o = sh('cmake -G Ninja -DUNIT_TESTING=on -B _b -S . >/dev/null 2>&1 && cmake --build _b 2>&1 | tail -3 && ctest --test-dir _b -j8 2>&1 | tail -4', cwd=wt, timeout=900)
    log['tests_with_change'] = {'rc': rc, 'tail': o[-400:], 'all_passed': '100% tests passed' in o}
    rc, o = sh('sh _out/build_demo.sh', cwd=wt, timeout=600)
    log['demo_with_change'] = {'rc': rc, 'tail': o[-400:]}
    log['confirmed'] = bool(log['patch_applies'] and log['demo_on_original']['rc'] == 0 and
                            log['tests_with_change']['all_passed'] and log['demo_with_change']['rc'] != 0)
    shutil.rmtree(os.path.join(wt, '_b'), ignore_errors=True)
    json.dump(log, open(os.path.join(out, 'confirm.json'), 'w'), indent=1)
    print(sid, 'confirmed' if log['confirmed'] else 'NOT CONFIRMED', json.dumps({k: (v if not isinstance(v, dict) else v.get('rc')) for k, v in log.items()}))
    return log['confirmed']


def detect(sid, props, tier='quick'):
    out = os.path.join(SEED, sid, '_out')
    patch = os.path.join(out, 'patch.diff')
    if os.environ.get('SEED_USE_WORKTREE'):
        # run the checks against the scratch worktree (change applied there), leaving /repo alone
        wt = os.path.join(SEED, sid)
        sh('git checkout -- . && git apply %s' % patch, cwd=wt)
        res = {}
        for p in props:
            t0 = time.time()
            rc, o = sh('VERIF_EVIDENCE_DIR=/tmp/seed_evidence VERIF_REPO=%s python3 run/vp.py check %s --tier %s' % (wt, p, tier), cwd=VERIF, timeout=7200)
            vio = [l for l in o.splitlines() if l.startswith('VIOLATION')]
            failed = [l.strip() for l in o.splitlines() if 'failed obligation' in l]
            und = [l.strip() for l in o.splitlines() if l.startswith('UNDECIDED')]
            res[p] = {'exit': rc, 'violations': vio[:10], 'failed_obligations': failed[:10], 'undecided': und[:5], 'wall_s': round(time.time() - t0), 'against': 'scratch worktree'}
            print(sid, p, 'exit', rc, len(vio), 'violation lines;', (failed[0][:300] if failed else ''), (und[0][:200] if und else ''))
        json.dump(res, open(os.path.join(out, 'detect_%s.json' % tier), 'w'), indent=1)
        return res
    rc, o = sh('git -C /repo status --porcelain --untracked-files=no')
    if o.strip():
        print('refusing: /repo has uncommitted changes')
        return None
    rc, o = sh('git -C /repo apply %s' % patch)
    if rc != 0:
        print('patch does not apply to /repo:', o[-300:])
        return None
    res = {}
    try:
        for p in props:
            t0 = time.time()
            rc, o = sh('VERIF_EVIDENCE_DIR=/tmp/seed_evidence python3 run/vp.py check %s --tier %s' % (p, tier), cwd=VERIF, timeout=7200)
            vio = [l for l in o.splitlines() if l.startswith('VIOLATION')]
            failed = [l.strip() for l in o.splitlines() if 'failed obligation' in l]
            res[p] = {'exit': rc, 'violations': vio[:10], 'failed_obligations': failed[:10], 'wall_s': round(time.time() - t0)}
            print(sid, p, 'exit', rc, len(vio), 'violation lines;', (failed[0][:200] if failed else ''))
    finally:
        sh('git -C /repo checkout -- .')
    json.dump(res, open(os.path.join(out, 'detect_%s.json' % tier), 'w'), indent=1)
    return res


def keep(sid, prop):
    out = os.path.join(SEED, sid, '_out')
    dst = os.path.join(VERIF, 'seeded', sid)
    os.makedirs(dst, exist_ok=True)
    for f in ('patch.diff', 'demo.c', 'build_demo.sh', 'README.md'):
        if os.path.exists(os.path.join(out, f)):
            shutil.copy(os.path.join(out, f), os.path.join(dst, f))
    meta = {'breaks_property': prop, 'origin': 'independent sub-agent given only the property text and a scratch worktree',
            'needs_to_manifest': open(os.path.join(out, 'README.md')).read()[:1500] if os.path.exists(os.path.join(out, 'README.md')) else ''}
    for f in ('confirm.json', 'detect_quick.json', 'detect_thorough.json'):
        if os.path.exists(os.path.join(out, f)):
            meta[f.replace('.json', '')] = json.load(open(os.path.join(out, f)))
    meta['what_i_ran'] = ['scratch worktree: sh _out/build_demo.sh on the original (expect exit 0) and with the patch (expect non-zero)',
                          'scratch worktree: cmake -DUNIT_TESTING=on ... && ctest (7/7 must pass with the patch)',
                          'git -C /repo apply patch.diff ; python3 run/vp.py check <Cxx> ; git -C /repo checkout -- .']
    json.dump(meta, open(os.path.join(dst, 'meta.json'), 'w'), indent=1)
    print('kept', dst)


if __name__ == '__main__':
    cmd = sys.argv[1]
    if cmd == 'confirm':
        sys.exit(0 if confirm(sys.argv[2]) else 1)
    if cmd == 'detect':
        tier = os.environ.get('VERIF_TIER', 'quick')
        detect(sys.argv[2], sys.argv[3:], tier)
    if cmd == 'keep':
        keep(sys.argv[2], sys.argv[3])
