/* CRF example listener: (a) listener mode - one well-formed AAF PDU whose timestamp is not a multiple of 8 makes
 * mclk_lookup() spin for ever; (b) talker mode - a first datagram of CRF size that is not a valid CRF PDU makes
 * aaf_talker_recv_pdu() dequeue from the empty timestamp queue (NULL dereference). */
#include <sys/types.h>
#include <sys/socket.h>
#include <string.h>
#include <stdio.h>
#include <stdlib.h>
#include <signal.h>
#include <unistd.h>
static unsigned char dgram[2000]; static size_t dgram_len;
static ssize_t my_recv(int fd, void *buf, size_t len, int flags)
{ size_t n = dgram_len < len ? dgram_len : len; memcpy(buf, dgram, n); return (ssize_t)n; }
#define recv my_recv
#define main crf_main
#include "crf/crf-listener.c"
#undef main
#undef recv
static void on_alarm(int s) { static const char m[] = "FAIL: receive path did not finish within 3 seconds\n"; write(1, m, sizeof m - 1); _exit(1); }
int main(int argc, char **argv)
{
    STAILQ_INIT(&mclk_timestamps);
    signal(SIGALRM, on_alarm);
    if (argc > 1 && argv[1][0] == 'a') {
        struct avtp_stream_pdu *p = (struct avtp_stream_pdu *)dgram;
        mode = MODE_LISTENER;
        memset(dgram, 0, sizeof dgram);
        init_aaf_pdu(p);
        avtp_aaf_pdu_set(p, AVTP_AAF_FIELD_TIMESTAMP, 12345);   /* odd: never congruent to k*125000 */
        avtp_aaf_pdu_set(p, AVTP_AAF_FIELD_SEQ_NUM, 0);
        dgram_len = AAF_PDU_SIZE;
        alarm(3);
        int r = aaf_listener_recv_pdu(3);
        printf("listener mode: returned %d\n", r);
        return r < 0;
    } else {
        mode = MODE_TALKER;
        memset(dgram, 0x55, sizeof dgram);                       /* CRF-sized garbage */
        dgram_len = CRF_PDU_SIZE;
        alarm(3);
        int r = aaf_talker_recv_pdu(3, 4);
        printf("talker mode: returned %d\n", r);
        return r < 0;
    }
}
