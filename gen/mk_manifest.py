#!/usr/bin/env python3
"""Writes MANIFEST.json from the table below (kept in one place so it stays valid)."""
import json, os
V = os.path.dirname(os.path.dirname(os.path.abspath(__file__)))
NOTE_COMMON = ('Trusted: CBMC 6.11 (front end, DFCC, bit-blasting, MiniSat/kissat), CPROVER memcpy/memset/malloc models, '
               'spec/wire_spec.json + spec/vp_spec.h as the statement of intent, goto-cc (GCC mode) in place of gcc. '
               'Identifier types of the five legacy wrapper pairs compiled as unsigned int under the guarded hook (all 2^32 identifiers covered). ')
CHECKS = {
 'C01': ('proof', 'Every getter / GetField of all 23 formats is enforced against a contract whose postcondition is the independent wire table (result == bits [s,s+n) MSB-first, full 64-bit compare, assigns nothing), with Avtp_GetField replaced by its contract K_get; K_get itself is enforced on the real loop with a loop contract for every accepted descriptor and every buffer; meta-lemmas tie the closed form to the wording of the property.', '§4.1 §4.3 §5 C01',
         NOTE_COMMON, 'CBMC code contracts (DFCC enforce/replace) + loop contract on Avtp_GetField'),
 'C02': ('proof', 'Every setter / SetField is enforced against a whole-header postcondition (each header byte == reference write of v mod 2^w into the old byte; frame = header only), Avtp_SetField replaced by K_set; K_set enforced on the real loop with a loop contract; a per-setter client contract proves every value that fits the field survives the setter\'s parameter type.', '§4.2 §4.3 §5 C02',
         NOTE_COMMON, 'CBMC code contracts (DFCC enforce/replace) + loop contract on Avtp_SetField'),
 'C03': ('proof', 'All accessors and initialisers are verified on buffers of exactly the oracle header length (is_fresh), so every pointer/bounds/frame obligation inside Avtp_GetField/SetField/memset and every callee precondition is an obligation that no byte outside the header is touched; header-size facts are constant obligations per format.', '§5 C03',
         NOTE_COMMON, 'CBMC pointer/bounds/assigns obligations under exact-extent preconditions'),
 'C04': ('proof', 'Each initialiser (current and legacy) is enforced against the canonical image computed from the oracle constants, byte by byte, for arbitrary prior contents and symbolic trailing slack that the frame clause excludes; setters called inside are replaced by their contracts.', '§4.3 §5 C04',
         NOTE_COMMON, 'CBMC code contracts, modular (setters replaced by contracts)'),
 'C05': ('proof', 'Every write operation and every initialiser (current and legacy) is proved to implement the record transition on the whole header (C02 / C04 contracts), and the record algebra (read-after-write, independence of disjoint fields, commutation, idempotence, last-write-wins) is proved over the reference semantics for all ranges; the induction over histories is the standard argument and is not mechanised.', '§5 C05',
         NOTE_COMMON + 'Induction over operation histories is by hand.', 'whole-view contracts + meta-lemmas over the reference semantics'),
 'C11': ('proof', 'NULL-PDU and out-of-range-identifier variants of every accessor/initialiser contract (assigns nothing, readers return 0) and the EINVAL contracts of the legacy wrappers, for all 2^32 identifiers of the current API.', '§5 C11',
         NOTE_COMMON, 'CBMC code contracts: inactive/NULL contract variants'),
 'C12': ('proof', 'Legacy get/set/init wrappers are enforced against contracts that use the same oracle rows as the current API, every legacy alias macro included by name, with the current-API callee replaced by its contract.', '§5 C12',
         NOTE_COMMON, 'CBMC code contracts, modular'),

 'C06': ('proof', 'Hand-written contracts on Avtp_Can_SetPayload / Finalize / CreateAcfMessage / GetCanPayloadLength and Avtp_CanBrief_SetPayload / Finalize: payload verbatim (ghost index), pad bytes zero, header bytes equal the successive reference writes of eff/id/fdf/length/pad over the old header (so no other field changes), frame = padded message only, brief builder returns the padded length; every payload length the 9-bit field can express, all 2^32 identifiers; CreateAcfMessage is verified with SetPayload/SetField/Finalize replaced by their contracts (composition).', '§5 C06',
         NOTE_COMMON, 'CBMC code contracts, modular, ghost byte indices instead of quantifiers'),
 'C09': ('proof', 'Contract on Avtp_Vss_Pad for all lengths 12..2044 with symbolic trailing slack: length = ceil(len/4), pad count, exactly the pad bytes zeroed (ghost index), header otherwise unchanged, frame excludes everything else; the 9-bit length accessors are covered by the generated getter / fits contracts.', '§5 C09',
         NOTE_COMMON, 'CBMC code contracts'),
 'C13': ('proof', 'Contracts on the 3 swap primitives and 12 conversion helpers: memory image of the result (through a byte view) is the big-/little-endian sequence of the argument, to-host helpers invert them, swaps reverse bytes; value-form clauses selected by host byte order are mirror images; involution/round-trip lemmas over the contracts only. Loop-free, full 2^16/2^32/2^64 domains, both host byte orders.', '§5 C13',
         NOTE_COMMON + 'Big-endian host = goto-cc --big-endian with __BYTE_ORDER__ overridden.', 'CBMC code contracts on inline functions, LE and BE configurations'),
 'C14': ('proof', 'All contracts are phrased over bytes in wire order; the same contracts are re-verified with the library compiled for a big-endian host (big-endian memory model + the big-endian branch of Byteorder.h): the two generic routines with their loop contracts, byte-order helpers, CAN builders, VSS pad, and the generated accessor contracts (quick: TSCF, CAN, VSS; thorough: all formats).', '§5 C14',
         NOTE_COMMON + 'Big-endian host is modelled by CBMC (--big-endian), no big-endian hardware or compiler is involved.', 're-verification of the contract suite under a big-endian configuration'),
 'C16': ('other', 'Footprint premise only: every library function under contract carries an assigns clause naming only memory reachable from its parameters and DFCC turns every store into an obligation against it; a symbol-table scan of every library TU proves all static-lifetime objects const. The inference from disjoint footprints to race freedom under every schedule is the textbook argument and is NOT mechanised; no schedule is explored.', '§5 C16',
         NOTE_COMMON + 'Non-interference => data-race freedom is argued by hand.', 'DFCC frame obligations + static-lifetime symbol scan'),
 'C17': ('proof', 'Shared fields are single oracle rows; per pair (canonical view, other view) a client lemma proves read-identically, write-through-one/read-through-other in both directions for every shared field, with all four accessors replaced by their contracts.', '§5 C17',
         NOTE_COMMON, 'client lemmas over generated contracts'),

 'C07': ('proof', 'Avtp_Vss_SetVssPath and, per datatype code, Avtp_Vss_SetVssData are enforced against the reference encoding of acf-vss.md (big-endian integers, IEEE-754 bit patterns compared as integers, 16-bit big-endian byte-length prefix, element order; ghost element index), for both address modes plus reserved modes/datatypes (nothing written), path lengths up to 65533 and value lengths up to 65535 bytes, exact-extent buffers with symbolic slack; array loops are closed by loop contracts; quick tier covers 11 representative codes, thorough all 24 + 4 reserved. If a loop was rewritten so that its loop contract no longer attaches, the obligation falls back to a BOUNDED run (values of at most 4 elements plus a probe at the top of the 16-bit length range) and says so in the evidence.', '§4.4 §5 C07',
         NOTE_COMMON + 'Per-datatype specialisation: Avtp_Vss_GetDatatype is replaced by its contract instance at the code (itself enforced on the real getter). Byte-order helpers are inlined (loop-free).', 'CBMC code contracts per datatype + loop contracts on the array loops'),
 'C08': ('proof', 'Avtp_Vss_GetVssPath, Avtp_Vss_CalcVssPathLength and, per datatype code, Avtp_Vss_GetVssData are enforced on symbolic well-formed messages of exactly their on-wire size: results equal the reference decoding (bit-exact floats, ghost element index), destination NULL => only the length is assigned, destinations are exact-extent so a write past the reported length or a read past the message fails; array loops closed by loop contracts (bounded fallback as for C07 when a loop was rewritten). Known finding: path size of 65534/65535-byte paths wraps the uint16 return type.', '§4.4 §5 C08',
         NOTE_COMMON + 'Round trip follows from encoder and decoder being proved against the same reference encoding.', 'CBMC code contracts per datatype + loop contracts on the array loops'),
 'C10': ('other', 'BOUNDED stand-in, not a proof: packer, counter and unpacker are enforced against their contracts for lists of at most 3 (quick) / 5 (thorough) strings, every string length symbolic 0..65535, requested counts greater/equal/smaller than the packed count, exact-extent source and destination buffers, loops unwound with unwinding assertions; plus the counter on arrays of up to 300 empty strings (the more-than-255-strings case) and the type-level fact that the counter\'s return type carries every possible count. Prefix-sum offsets cannot be expressed in CBMC loop invariants without quantifiers.', '§5 C10',
         NOTE_COMMON + 'Bound on the number of strings; lists longer than the bound are not covered.', 'CBMC code contracts with bounded unwinding (unwinding assertions)'),

 'C18': ('other', 'The receive paths of ALL SIX example listeners (#included unmodified) are enforced against contracts for ANY datagram and recv result: every pointer/bounds obligation, termination (loop variants for the ACF-CAN message loop and the CRF media-clock search), the listener gives up only if a system call failed (ghost set by the trusted environment contracts), sample / NAL / timestamp queues stay well formed. ACF-CAN, AAF, CVF, CRF: each receive function and helper carries its own contract, is enforced against it and replaced by it in its callers. hello-world (GPC) and ACF-VSS: the receive code is the body of main()\'s while(1); it is closed by a loop contract (one iteration from an arbitrary state of all locals and the buffer) and printf string conversions are checked by an executable model. Library getters are replaced by their contracts, whose exact-extent preconditions turn a length field that reaches past the datagram into a failed call-site obligation. Bounded / assumed parts, stated in the evidence: CRF mclk_dequeue_ts is enforced on queues of depth 1..2 and the induction over loop iterations for the queue abstraction is by hand; fallback obligations (only used when the code was restructured so that a contract no longer attaches) are bounded.', '§5 C18 §13',
         NOTE_COMMON + 'Trusted contracts for recv / write / clock_gettime / timerfd_settime / malloc / memcpy; executable printf model; timeout()/tx paths, poll loops and socket set-up are not under contract; stale-byte reads are invisible to CBMC.', 'CBMC code contracts on the example receive functions + loop contracts (message loop, receive loops of main, media-clock search)'),
 'C19': ('other', 'Talker: (1) prepare_acf_packet (#included unmodified) is enforced against the ACF-CAN reference encoding of the input frame (type, length, pad, RTR/EFF/BRS/FDF/ESI, identifier, data, pad bytes, returned byte count) for every classic/FD frame - a proof; (2) the sending loop of main() is closed by two loop contracts (UDP/raw x TSCF/NTSCF as four obligations, classic/FD symbolic): messages are placed back to back inside the 1500-byte buffer for any requested count, every frame the CAN socket delivered is packed (ghost count of successful reads == messages built), and - as the precondition of the trusted sendto() contract, checked at the call - the enclosing TSCF/NTSCF header announces exactly the number of bytes that follow it in the datagram. Listener: BOUNDED stand-in - the real listener and library are model-checked on the reference encoding (written from the oracle, not the library) of 1..2 (quick) / 1..3 (thorough) symbolic frames per packet, checking that exactly those frames reach the CAN socket with identical id, flags, length and data. Not mechanised: that the datagram is the in-order concatenation of the messages (back-to-back placement + the frame clause of the builder).', '§5 C19 §13',
         NOTE_COMMON + 'Trusted read()/sendto()/recv()/write() contracts and stubs, bounded memcpy stand-in, frames per packet bounded on the listener side.', 'CBMC code contracts (talker builder, talker sending loop with loop contracts) + bounded model checking (listener)'),
}
NA = {
 'C15': 'alignment- and optimisation-level behaviour are outside CBMC\'s byte-addressed memory model and outside source-level contracts (DESIGN.md §5 C15)',
 'C20': 'a compile-time property of header combinations; no function contract can state it (DESIGN.md §5 C20)',
}
def main(extra_checks=None, extra_na=None):
    checks = dict(CHECKS); checks.update(extra_checks or {})
    na = dict(NA); na.update(extra_na or {})
    props = [json.loads(l)['id'] for l in open(os.path.join(V, 'properties.jsonl'))]
    m = {
     'version': 1,
     'setup_cmd': 'python3 run/vp.py env',
     'hooks': {'guard': 'COVESA_OPEN1722_VERIF', 'enable': 'goto-cc -DCOVESA_OPEN1722_VERIF (one source hook: under the guard the five identifier typedefs compared inside the legacy wrappers are unsigned int, as GCC treats them; contracts are attached to re-declarations in /verif/contracts and loop contracts come from /verif/loops and run/*.py via --loop-contracts-file)',
               'baseline_off_cmd': 'cmake -G Ninja -DUNIT_TESTING=on -B /repo/_build -S /repo && cmake --build /repo/_build && ctest --test-dir /repo/_build -j8 --timeout 900', 'source_commits': ['b3e9c34'], 'add_only': True},
     'engines': [{'name': 'cbmc-contracts', 'path': 'run/vp.py', 'serves_properties': sorted(checks), 'kind_free_text': 'CBMC 6.11 code contracts (DFCC): per-function enforce, callee replace, loop contracts'}],
     'checks': [], 'not_applicable': [],
     'notes': 'See DESIGN.md. Genuine defects repaired in /repo are listed in known_findings.json (fixed:).'}
    for pid in props:
        if pid in checks:
            cat, text, ref, note, tech = checks[pid]
            m['checks'].append({'property_id': pid, 'quick_cmd': 'python3 run/vp.py check %s --tier quick' % pid,
                                'thorough_cmd': 'python3 run/vp.py check %s --tier thorough' % pid,
                                'evidence_file': '/verif/evidence/%s.json' % pid, 'replay_cmd_template': 'python3 run/vp.py replay {path}',
                                'engine': 'cbmc-contracts', 'level_claimed': {'category': cat, 'text': text, 'design_ref': ref},
                                'level_note': note, 'technique': tech})
        else:
            m['not_applicable'].append({'property_id': pid, 'reason': na.get(pid, 'check not built yet in this snapshot of /verif (work in progress; see DESIGN.md)')})
    json.dump(m, open(os.path.join(V, 'MANIFEST.json'), 'w'), indent=1)
if __name__ == '__main__':
    main()
