#!/usr/bin/env python3
"""Hand-written obligations: the two generic routines (loop contracts), spec meta-lemmas,
byte-order helpers, ACF-CAN builders, VSS codec, size facts, view pairs, examples."""
import os
import re

from vplib import Job, VERIF, REPO

LOOPS = os.path.join(VERIF, 'loops')


def _read(p):
    return open(p).read()


# --------------------------------------------------------------------------------------
# Utils.c: K_get / K_set / K_set_inactive enforced on the real bodies, loops closed by
# loop contracts (unbounded in descriptor, buffer and iteration count).
# --------------------------------------------------------------------------------------
H_UTILS = r'''#include <stdlib.h>
#include "vp_env.h"
#include "utils.h"

void harness(void)
{
    uint8_t numFields = nondet_u8();
    uint32_t field = nondet_u32();
    uint64_t value = nondet_u64();
    Avtp_FieldDescriptor_t *table = NULL;
    uint8_t *pdu = NULL;
    _Bool active = 0;
    if (nondet_bool()) {
        table = malloc((size_t)numFields * sizeof(Avtp_FieldDescriptor_t));
        __CPROVER_assume(table != NULL);
    }
    if (table != NULL && field < numFields) {
        unsigned nq = VP_NQ(table[field].offset, table[field].bits);
        unsigned q = table[field].quadlet;
        if (nondet_bool()) {
            pdu = malloc(4u * (q + nq));      /* EXACTLY the bytes up to the last touched quadlet */
            __CPROVER_assume(pdu != NULL);
            active = 1;
        }
    } else if (nondet_bool()) {
        pdu = malloc(1);
        __CPROVER_assume(pdu != NULL);
    }
    %(pre)s
    %(call)s
    %(canaries)s
    VP_CANARY();
}
'''


CAN_A = 'if (active) __CPROVER_assert(0, "canary: active path reachable");'
CAN_I = 'if (!active) __CPROVER_assert(0, "canary: inactive path reachable");'


def utils_jobs(config='le', fallback=False):
    jobs = []
    src = ['src/avtp/Utils.c']
    lc_get = {'Avtp_GetField': [{'template': _read(os.path.join(LOOPS, 'getfield.inv')),
                                 'symbols': ['fieldDescriptor', 'processedBits', 'quadletOffset', 'result', 'pdu']}]}
    lc_set = {'Avtp_SetField': [{'template': _read(os.path.join(LOOPS, 'setfield.inv')),
                                 'symbols': ['fieldDescriptor', 'processedBits', 'quadletOffset', 'value', 'pdu']}]}
    ow_get = {'post': ['C01', 'C11', 'C14'], 'safety': ['C03', 'C01', 'C14'], 'assigns': ['C01', 'C16'], 'loop': ['C01', 'C03', 'C14']}
    ow_set = {'post': ['C02', 'C05', 'C14'], 'safety': ['C03', 'C02', 'C14'], 'assigns': ['C02', 'C03', 'C16'], 'loop': ['C02', 'C03', 'C14']}
    ow_ina = {'post': ['C11'], 'safety': ['C11'], 'assigns': ['C11', 'C16'], 'loop': ['C11']}
    # Fallbacks, used only when the loop contract cannot be attached (locals renamed, loop restructured): the same contract with
    # the loop unwound 4 times under an unwinding assertion.  The field loop runs at most 3 times (offset <= 31, bits <= 64), so
    # the unwinding assertion closes it completely; a rewritten loop that needs more iterations ends "undecided".
    FBTXT = ('FALLBACK (loop contract not attachable): the quadlet loop is unwound 4 times with an unwinding assertion - complete for the '
             'at most 3 iterations a descriptor with offset <= 31 and bits <= 64 needs')
    src_get = H_UTILS % {'pre': '', 'call': 'Avtp_GetField(table, numFields, pdu, field);', 'canaries': CAN_A + CAN_I}
    src_set = H_UTILS % {'pre': '__CPROVER_assume(active);', 'call': 'Avtp_SetField(table, numFields, pdu, field, value);', 'canaries': CAN_A}
    ow_get_fb = dict(ow_get, unwind=ow_get['loop'])
    ow_set_fb = dict(ow_set, unwind=ow_set['loop'])
    fb_get = Job('Avtp_GetField/K_get~unwinding-fallback', src_get, src, enforce='Avtp_GetField', owners=ow_get_fb, function='Avtp_GetField',
                 kind='utils-fallback', config=config, timeout=1500, solver='kissat', unwind={'*repo*': 4}, bounded=FBTXT)
    fb_set = Job('Avtp_SetField/K_set~unwinding-fallback', src_set, src, enforce='Avtp_SetField', replace=['Avtp_GetField'], owners=ow_set_fb,
                 function='Avtp_SetField', kind='utils-fallback', config=config, timeout=2400, solver='kissat', unwind={'*repo*': 4}, bounded=FBTXT)
    jobs.append(Job('Avtp_GetField/K_get', src_get, src,
                    enforce='Avtp_GetField', loop_contracts=lc_get, owners=ow_get, function='Avtp_GetField',
                    kind='utils', config=config, timeout=900, solver='kissat', fallback=fb_get))
    jobs.append(Job('Avtp_SetField/K_set', src_set, src,
                    enforce='Avtp_SetField', replace=['Avtp_GetField'], loop_contracts=lc_set, owners=ow_set, function='Avtp_SetField',
                    kind='utils', config=config, timeout=1500, solver='kissat', fallback=fb_set))
    # inactive writer: the loop is unreachable under this contract; its loop contract is still
    # supplied so that no loop is left without one.
    jobs.append(Job('Avtp_SetField/K_set_inactive', H_UTILS % {'pre': '__CPROVER_assume(!active);', 'call': 'Avtp_SetField(table, numFields, pdu, field, value);', 'canaries': CAN_I}, src,
                    enforce='Avtp_SetField/vp_K_set_inactive', replace=['Avtp_GetField'], loop_contracts=lc_set, owners=ow_ina, function='Avtp_SetField',
                    kind='utils', config=config, timeout=600))
    return jobs


LEMMAS = [
    ('lemma_get_bits_meaning', ['C01', 'C05']),
    ('lemma_get_bits_translation', ['C01']),
    ('lemma_put_byte_bits', ['C02', 'C05']),
    ('lemma_window_get', ['C01']),
    ('lemma_window_put', ['C02']),
    ('lemma_record_algebra', ['C05', 'C02']),
]


def lemma_jobs(config='le'):
    jobs = []
    txt = _read(os.path.join(VERIF, 'spec', 'lemmas', 'lemmas.c'))
    for fn, props in LEMMAS:
        jobs.append(Job('spec/' + fn, txt, [], entry=fn, no_dfcc=True, config=config,
                        owners={'assert': props, 'safety': props}, function=None, kind='lemma', timeout=900,
                        ignore_funcs=[f for f, _ in LEMMAS if f != fn]))
    return jobs




# --------------------------------------------------------------------------------------
# C13: byte-order helpers (loop-free; full 2^16 / 2^32 / 2^64 domains, symbolic)
# --------------------------------------------------------------------------------------
BO_FUNCS = [(fn % w, w) for w in (16, 32, 64) for fn in
            ('Avtp_Bswap%d', 'Avtp_CpuToBe%d', 'Avtp_CpuToLe%d', 'Avtp_BeToCpu%d', 'Avtp_LeToCpu%d')]

BO_REPLAY = r'''#include <stdio.h>
#include <stdint.h>
#include "vp_spec.h"
#include "avtp/Byteorder.h"
int main(void){ uint%(w)d_t x = (uint%(w)d_t)%(wv)uull; uint%(w)d_t r = %(func)s(x); int bad = 0;
%(checks)s
 printf(bad ? "REPRODUCED\n" : "NOT-REPRODUCED\n"); return bad; }
'''


def byteorder_jobs(config='le'):
    from vplib import scan_tags
    jobs = []
    tags = scan_tags(os.path.join(VERIF, 'contracts', 'byteorder.h'))
    ow = {'post': ['C13'], 'safety': ['C13'], 'assigns': ['C13', 'C16'], 'assert': ['C13']}
    for fn, w in BO_FUNCS:
        src = ('#include "byteorder.h"\nvoid harness(void)\n{\n    uint%d_t x = nondet_u%d();\n    vp_wv = nondet_u64();\n'
               '    %s(x);\n    VP_CANARY();\n}\n' % (w, w, fn))
        chk = {'Bswap': ' if (r != vp_rev%d(x)) bad = 1;' % w,
               'CpuToBe': ' if (!vp_img%d_is_be(r, x)) bad = 1;' % w,
               'CpuToLe': ' if (!vp_img%d_is_le(r, x)) bad = 1;' % w,
               'BeToCpu': ' if (!vp_img%d_is_be(x, r)) bad = 1;' % w,
               'LeToCpu': ' if (!vp_img%d_is_le(x, r)) bad = 1;' % w}[re.match(r'Avtp_([A-Za-z]+?)\d+$', fn).group(1)]
        jobs.append(Job('%s/iface' % fn, src, [], enforce=fn, owners=ow, clause_map=tags, function=fn, kind='byteorder',
                        config=config, extra_cc=['-DVP_BINDINGS'], timeout=300,
                        replay={'kind': 'custom', 'template': BO_REPLAY, 'w': w, 'func': fn, 'checks': chk}))
    # client lemmas over the contracts only (callees replaced): involution and round trips
    for w in (16, 32, 64):
        t = 'uint%d_t' % w
        src = ('#include "byteorder.h"\n'
               'void vp_bo_lemma%d(%s x)\n__CPROVER_requires(1)\n__CPROVER_assigns()\n__CPROVER_ensures(1)\n{\n'
               '    __CPROVER_assert(Avtp_Bswap%d(Avtp_Bswap%d(x)) == x, "swap is an involution");\n'
               '    __CPROVER_assert(Avtp_BeToCpu%d(Avtp_CpuToBe%d(x)) == x, "BeToCpu inverts CpuToBe");\n'
               '    __CPROVER_assert(Avtp_LeToCpu%d(Avtp_CpuToLe%d(x)) == x, "LeToCpu inverts CpuToLe");\n'
               '    __CPROVER_assert(Avtp_CpuToBe%d(Avtp_BeToCpu%d(x)) == x, "CpuToBe inverts BeToCpu");\n'
               '    __CPROVER_assert(Avtp_CpuToLe%d(Avtp_LeToCpu%d(x)) == x, "CpuToLe inverts LeToCpu");\n'
               '}\nvoid harness(void)\n{\n    %s x = nondet_u%d();\n    vp_bo_lemma%d(x);\n    VP_CANARY();\n}\n'
               % ((w, t) + (w,) * 10 + (t, w, w)))
        jobs.append(Job('byteorder/roundtrip%d' % w, src, [], enforce='vp_bo_lemma%d' % w,
                        replace=[f for f, ww in BO_FUNCS if ww == w], owners=ow, function=None, kind='byteorder-lemma',
                        config=config, timeout=300, solver='kissat'))
    return jobs


def _retag(jobs, pid, keep=()):
    """Re-own every obligation class of the given (big-endian) jobs to property `pid`."""
    for j in jobs:
        classes = set(j.owners.keys()) | {'post', 'safety', 'assigns', 'assert', 'loop'}
        j.owners = {k: sorted(set([pid]) | (set(j.owners.get(k, [])) & set(keep))) for k in classes}
        j.clause_map = {k: '+'.join(sorted(set([pid]) | (set(v.split(':')[0].split('+')) & set(keep)))) + ':' + v.split(':', 1)[1] for k, v in j.clause_map.items()}
    return jobs


def all_hand_jobs(model, tier):
    import gen_contracts as G
    from handjobs2 import can_jobs, vsspad_jobs, size_jobs, view_jobs, history_jobs
    jobs = []
    jobs += utils_jobs('le')
    jobs += lemma_jobs('le')
    jobs += byteorder_jobs('le')
    jobs += can_jobs(model, 'le')
    jobs += vsspad_jobs(model, 'le')
    jobs += size_jobs(model, 'le')
    jobs += view_jobs(model, 'le')
    pairs = [('can', 'tscf'), ('crf', 'lin')] if tier == 'quick' else [('can', 'tscf'), ('crf', 'lin'), ('rvf', 'cvf'), ('pcm', 'ntscf'), ('vss', 'flexray'), ('most', 'gpc'), ('mjpeg', 'jpeg2000'), ('sensor', 'udp')]
    jobs += history_jobs(model, pairs, 'le')
    from handjobs3 import vss_jobs
    jobs += vss_jobs(model, tier, 'le')
    from handjobs4 import strarray_jobs
    jobs += strarray_jobs(model, tier, 'le')
    from handjobs5 import example_jobs
    jobs += example_jobs(model, tier, 'le')
    from handjobs6 import aaf_listener_jobs, cvf_listener_jobs
    jobs += aaf_listener_jobs(model, tier, 'le') + cvf_listener_jobs(model, tier, 'le')
    from handjobs7 import main_loop_jobs
    jobs += main_loop_jobs(model, tier, 'le')
    from handjobs8 import crf_listener_jobs
    jobs += crf_listener_jobs(model, tier, 'le')
    from handjobs9 import talker_main_jobs
    jobs += talker_main_jobs(model, tier, 'le')
    # ---- C14: the same contracts, re-verified for a big-endian host
    be = utils_jobs('be') + can_jobs(model, 'be') + vsspad_jobs(model, 'be')
    be += G.all_generated_jobs(model, 'be', formats=(['tscf', 'can', 'vss'] if tier == 'quick' else None))
    # the VSS codec is the other place that touches host words: re-verify it for a big-endian host
    vss_be = vss_jobs(model, tier, 'be')
    # Array and string datatypes reach their data through a pointer held in the VssData_t union; CBMC's big-endian memory
    # model cannot read such a pointer back (byte_extract_big_endian of the union loses the pointer's object), which made
    # these obligations fail on the unchanged tree - a false alarm of the machinery, so they are not part of the
    # big-endian suite (scalars, which cover every element width and the float/double paths, and the path functions are)
    from handjobs3 import POINTERS
    ptr_labs = tuple('/' + v[0] for v in POINTERS.values())
    vss_be = [j for j in vss_be if not any(l in j.name for l in ptr_labs)]
    if tier == 'quick':
        keep = ('Avtp_Vss_CalcVssPathLength/iface', 'Avtp_Vss_SetVssPath/iface', 'Avtp_Vss_GetVssPath/iface', 'at-0x03', 'at-0x06', 'at-0x09', 'at-0x0A', 'at-0x82',
                '/VSS_INT16', '/VSS_UINT64', '/VSS_FLOAT', '/VSS_DOUBLE')
        vss_be = [j for j in vss_be if any(j.name.endswith(k) for k in keep) and 'full-range' not in j.name]
    else:
        vss_be = [j for j in vss_be if 'full-range' not in j.name]
    be += vss_be
    if tier != 'quick':
        be += G.legacy_jobs(model, 'be')
    jobs += _retag(be, 'C14')
    jobs += _retag(byteorder_jobs('be'), 'C14', keep=('C13',))
    return jobs
