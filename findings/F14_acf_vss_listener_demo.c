/* acf-vss listener: interop path / string value make the decoder write through unset pointers */
#include <sys/types.h>
#include <sys/socket.h>
#include <string.h>
#include <stdio.h>
static int calls;
static ssize_t my_recv(int fd, void *buf, size_t len, int flags)
{
    unsigned char *b = buf;
    if (calls++) return -1;
    memset(b, 0, len);
    b[0] = 0x82; b[1] = 0x80;              /* raw NTSCF */
    b[12] = (0x42 << 1); b[13] = 6;        /* ACF VSS, 6 quadlets */
    b[14] = 0x00;                          /* addr_mode 0 = interop */
    b[15] = 0x09;                          /* float */
    b[24] = 0; b[25] = 5; memcpy(b + 26, "a.b.c", 5);
    return 12 + 24;
}
#define recv my_recv
#define main vss_main
#include "acf-vss/acf-vss-listener.c"
#undef main
int create_listener_socket(char *i, uint8_t m[], int p){return 3;}
int create_listener_socket_udp(uint32_t p){return 3;}
int main(void)
{
    char *argv[] = { "vss", NULL };
    vss_main(1, argv);
    return 0;
}
