#!/usr/bin/env python3
"""C18, listeners whose receive path is the body of the `while (1)` loop of main():
examples/hello-world/hello-world-listener.c (ACF GPC) and examples/acf-vss/acf-vss-listener.c.

The example .c file is #included unmodified (main renamed by a macro).  The receive loop gets a
LOOP CONTRACT (invariant: nothing needs to survive from one datagram to the next except the
socket; assigns: the loop's locals and the receive buffer), so CBMC checks ONE ITERATION FROM AN
ARBITRARY STATE: whatever the previous datagrams left in the locals and in the buffer, whatever
recv() delivers now (any length 0..1500, any content), the body is memory safe, and it either
goes on to the next iteration or leaves through `goto err` - which the contract of the renamed
main allows only if recv() itself failed (ghost vp_env_failed).  The body contains no inner loop
(library accessors are replaced by their contracts), so every iteration finishes in bounded
time.

printf is given an executable model that walks the (literal) format string and checks every
string conversion: "%.*s" needs `precision` readable bytes, a plain "%s" needs a NUL inside the
object within the first 256 bytes (unrolled probes)."""
import os
import re

from vplib import Job, REPO

# example obligations link the whole library (precompiled once per run): a library function the example starts to call is
# then inlined with its real body instead of being an undefined function
LIBSRC = ['src/avtp/Utils.c']

ENV3 = r'''
#include <stdio.h>
#include <stdarg.h>
#include <stdlib.h>
#include <argp.h>
#include <sys/types.h>
#include <sys/socket.h>
#include <unistd.h>
int vp_env_failed;        /* ghost: some system call reported failure */
ssize_t recv(int fd, void *buf, size_t len, int flags)
__CPROVER_requires(__CPROVER_w_ok(buf, len))
__CPROVER_assigns(__CPROVER_object_upto((unsigned char *)buf, len); vp_env_failed)
__CPROVER_ensures(__CPROVER_return_value >= -1 && __CPROVER_return_value <= (ssize_t)len)
__CPROVER_ensures(__CPROVER_return_value < 0 ==> vp_env_failed == 1)
__CPROVER_ensures(__CPROVER_return_value >= 0 ==> vp_env_failed == __CPROVER_old(vp_env_failed))
;
void perror(const char *s) { }
int close(int fd) { return 0; }
int fprintf(FILE *f, const char *fmt, ...) { return 0; }   /* never reads its arguments */
error_t argp_parse(const struct argp *a, int argc, char **argv, unsigned flags, int *end, void *input) { return 0; }
int create_listener_socket_udp(uint32_t udp_port) { int fd = nondet_int(); if (fd < 0) vp_env_failed = 1; return fd; }
int create_listener_socket(char *ifname, uint8_t macaddr[], int protocol) { int fd = nondet_int(); if (fd < 0) vp_env_failed = 1; return fd; }

/* Executable, LOOP-FREE, NON-VARIADIC model of printf.  (A variadic body is not usable: under DFCC, va_arg()
 * returns an unconstrained object in CBMC 6.11 - observed: an assertion about the string argument was "proved"
 * although it is false.)  A function-like macro, defined after every system header and before the example source,
 * turns each call printf(fmt, a, b, ...) into vp_printf_model(fmt, n, <is-string, string, integer> per argument)
 * by _Generic dispatch on the argument types.  The format walk is 64 unrolled steps (formats are literals, symbolic
 * execution folds it).  Checked: "%.*s" needs `precision` readable bytes; a plain "%s" needs a NUL inside the
 * object within the first 256 bytes (unrolled probes with the index clamped into the object). */
#define VP_REP4(x) x x x x
#define VP_REP64(x) VP_REP4(VP_REP4(VP_REP4(x)))
#define VP_REP256(x) VP_REP64(VP_REP4(x))
#define VP_STR_PROBE vp_term = vp_term | (vp_k < vp_n && vp_s[vp_k < vp_n ? vp_k : 0] == 0); vp_k++;
static void vp_check_cstr(const char *vp_s)
{
    __CPROVER_assert(__CPROVER_r_ok(vp_s, 1), "C18: printf(\"%s\") argument points into an object");
    size_t vp_n = __CPROVER_OBJECT_SIZE(vp_s) - __CPROVER_POINTER_OFFSET(vp_s);   /* bytes left in the object */
    _Bool vp_term = 0; size_t vp_k = 0;
    VP_REP256(VP_STR_PROBE)
    __CPROVER_assert(vp_term, "C18: printf(\"%s\") argument is NUL terminated inside its object (within the 256 bytes the model probes)");
}
#define VP_PF_ARGT(a) ((a) == 0 ? t0 : (a) == 1 ? t1 : (a) == 2 ? t2 : (a) == 3 ? t3 : (a) == 4 ? t4 : t5)
#define VP_PF_ARGS(a) ((a) == 0 ? s0 : (a) == 1 ? s1 : (a) == 2 ? s2 : (a) == 3 ? s3 : (a) == 4 ? s4 : s5)
#define VP_PF_ARGI(a) ((a) == 0 ? i0 : (a) == 1 ? i1 : (a) == 2 ? i2 : (a) == 3 ? i3 : (a) == 4 ? i4 : i5)
#define VP_PF_STEP \
    if (!vp_done) { char c = fmt[vp_i]; \
        if (c == 0) vp_done = 1; \
        else if (vp_st == 0) { if (c == '%') { vp_st = 1; vp_have_prec = 0; } } \
        else if (vp_st == 2) { if (c == '*') { vp_prec = VP_PF_ARGI(vp_a); vp_a++; vp_have_prec = 1; } vp_st = 1; } \
        else if (c == '%') vp_st = 0; \
        else if (c == '.') vp_st = 2; \
        else if (c == 'l' || c == 'z' || c == 'j' || c == 'h' || c == '-' || c == '+' || c == ' ' || c == '#' || (c >= '0' && c <= '9')) { } \
        else { \
            if (c == 's') { \
                __CPROVER_assert(vp_a < n && VP_PF_ARGT(vp_a) == 1, "printf model: %s conversion is given a char pointer"); \
                const char *vp_s = VP_PF_ARGS(vp_a); \
                if (vp_have_prec) { \
                    __CPROVER_assert(vp_prec <= 0 || __CPROVER_r_ok(vp_s, (size_t)vp_prec), "C18: printf(\"%.*s\") reads only bytes that exist (precision bytes readable)"); \
                } else { \
                    vp_check_cstr(vp_s); \
                } \
            } \
            vp_a++; vp_st = 0; } \
        vp_i++; }
static int vp_printf_model(const char *fmt, int n, int t0, const char *s0, long i0, int t1, const char *s1, long i1, int t2, const char *s2, long i2,
                           int t3, const char *s3, long i3, int t4, const char *s4, long i4, int t5, const char *s5, long i5)
{
    size_t vp_i = 0; int vp_st = 0, vp_have_prec = 0, vp_a = 0; long vp_prec = 0; _Bool vp_done = 0;
    VP_REP64(VP_PF_STEP)
    __CPROVER_assert(vp_done, "printf model: format string longer than 63 characters");
    return 0;
}
#define VP_S(x) _Generic(((x) + 0), char *: (x), const char *: (x), default: (const char *)0)
#define VP_ISSTR(x) _Generic(((x) + 0), char *: 1, const char *: 1, default: 0)
#define VP_I(x) _Generic(((x) + 0), char *: 0L, const char *: 0L, float: 0L, double: 0L, default: (long)(x))
#define VP_PICK(_0, _1, _2, _3, _4, _5, _6, N, ...) N
#define VP_A(x) VP_ISSTR(x), VP_S(x), VP_I(x)
#define VP_Z 0, (const char *)0, 0L
#define VP_PF0(fmt) vp_printf_model(fmt, 0, VP_Z, VP_Z, VP_Z, VP_Z, VP_Z, VP_Z)
#define VP_PF1(fmt, a) vp_printf_model(fmt, 1, VP_A(a), VP_Z, VP_Z, VP_Z, VP_Z, VP_Z)
#define VP_PF2(fmt, a, b) vp_printf_model(fmt, 2, VP_A(a), VP_A(b), VP_Z, VP_Z, VP_Z, VP_Z)
#define VP_PF3(fmt, a, b, c) vp_printf_model(fmt, 3, VP_A(a), VP_A(b), VP_A(c), VP_Z, VP_Z, VP_Z)
#define VP_PF4(fmt, a, b, c, d) vp_printf_model(fmt, 4, VP_A(a), VP_A(b), VP_A(c), VP_A(d), VP_Z, VP_Z)
#define VP_PF5(fmt, a, b, c, d, e) vp_printf_model(fmt, 5, VP_A(a), VP_A(b), VP_A(c), VP_A(d), VP_A(e), VP_Z)
#define VP_PF6(fmt, a, b, c, d, e, f) vp_printf_model(fmt, 6, VP_A(a), VP_A(b), VP_A(c), VP_A(d), VP_A(e), VP_A(f))
#define VP_PRINTF(fmt, ...) VP_PICK(_, ##__VA_ARGS__, VP_PF6, VP_PF5, VP_PF4, VP_PF3, VP_PF2, VP_PF1, VP_PF0)(fmt, ##__VA_ARGS__)
#define printf(...) VP_PRINTF(__VA_ARGS__)
'''

MAIN_ASSUME = [
    'trusted environment: recv contract (fills at most len bytes, returns -1..len, sets the ghost vp_env_failed exactly when it fails); perror/fprintf/close/argp_parse are no-op stubs; '
    'create_listener_socket[_udp] return an arbitrary descriptor',
    'printf calls are redirected by a macro to an executable loop-free, non-variadic model (64 unrolled format steps over the literal format; a plain %s argument must be NUL terminated inside its object within 256 bytes) that checks "%.*s" (precision bytes readable) and "%s" '
    '(NUL within the first 1600 bytes of the object); other conversions are not checked',
    'the receive loop of main() is closed by a loop contract (one iteration from an arbitrary state); argument parsing and socket set-up are stubs',
    'reads of stale in-bounds bytes of the receive buffer beyond the received length are not detected (CBMC has no initialisation tracking)',
]


def _tags(tu_text):
    cm = {}
    for i, l in enumerate(tu_text.split('\n'), 1):
        m = re.search(r'/\*TAG\s+(\S+?)\s*\*/', l)
        if m:
            cm[i] = m.group(1)
    return cm


def _gen(model, need):
    import gen_contracts as G
    t = ''
    for k, v in need.items():
        t += G.format_contracts(model, model['fmts'][k], needed=set(v)).text()
    return t


HW_GETTERS = {
    'udp': ['Avtp_Udp_GetEncapsulationSeqNo'], 'common': ['Avtp_CommonHeader_GetSubtype'],
    'tscf': ['Avtp_Tscf_GetStreamDataLength'], 'ntscf': ['Avtp_Ntscf_GetNtscfDataLength'],
    'acf_common': ['Avtp_AcfCommon_GetAcfMsgType'],
    'gpc': ['Avtp_Gpc_GetGpcMsgId', 'Avtp_Gpc_GetAcfMsgLength'],
}

# the loop contract claims nothing about the locals, so its frame is "every local of main" (computed from the goto symbol
# table of the tree as it is: adding or renaming a local cannot break the obligation) plus the environment ghost
MAIN_LOOP = 'INV: 1 == 1\nASG: vp_env_failed\n'
MAIN_SYMS = ['::vp_env_failed']


def _first_iteration_fallback(primary_name, src, fn, repl, own, inc, config, function):
    """Used when the loop contract cannot be attached to the receive loop as written now: the loop is unwound once
    WITHOUT an unwinding assertion (it never terminates), i.e. the FIRST datagram is processed from CBMC's
    nondeterministic initial state (uninitialised locals and buffer are arbitrary).  Bounded stand-in."""
    return Job(primary_name + '~first-iteration-fallback', src, LIBSRC, enforce=fn, replace=repl, owners=own, clause_map=_tags(src),
               function=function, kind='example-fallback', config=config, includes=inc, timeout=1800, obj_bits=10,
               unwind={fn: 1}, no_unwinding_assertions=True, assumptions=MAIN_ASSUME,
               bounded='BOUNDED FALLBACK (loop contract not attachable): the receive loop is unwound once without an unwinding '
                       'assertion - only the first datagram, from a nondeterministic initial state of all uninitialised locals')


def hello_world_job(model, tier, config='le'):
    import gen_contracts as G
    inc = [os.path.join(REPO, 'examples')]
    src = (G.PRELUDE + ENV3 + _gen(model, HW_GETTERS) +
           '#define main vp_hw_listener_main\n#include "hello-world/hello-world-listener.c"\n#undef main\n'
           'int vp_hw_listener_main(int argc, char *argv[])\n'
           '__CPROVER_assigns(vp_env_failed)\n'
           '__CPROVER_ensures(vp_env_failed == 1) /*TAG C18:listener-leaves-its-receive-loop-only-if-a-system-call-failed(any-datagram-is-survived)*/\n;\n'
           'void harness(void)\n{\n    use_udp = nondet_int(); vp_env_failed = 0;\n    char *argv[1] = { 0 };\n'
           '    int r = vp_hw_listener_main(1, argv);\n'
           '    VP_CANARY();\n}\n')
    repl = [g for v in HW_GETTERS.values() for g in v] + ['recv']
    own = {'post': ['C18'], 'safety': ['C18'], 'assigns': ['C18'], 'loop': ['C18'], 'assert': ['C18'], 'unwind': ['C18']}
    fb = _first_iteration_fallback('examples/hello-world-listener/main-receive-loop', src, 'vp_hw_listener_main', repl, own, inc, config,
                                   'hello-world-listener.c:main(receive loop)')
    return Job('examples/hello-world-listener/main-receive-loop', src, LIBSRC, enforce='vp_hw_listener_main', replace=repl, fallback=fb,
               loop_contracts={'vp_hw_listener_main': [{'template': MAIN_LOOP, 'symbols': MAIN_SYMS, 'all_locals': True}]},
               owners={'post': ['C18'], 'safety': ['C18'], 'assigns': ['C18'], 'loop': ['C18'], 'assert': ['C18'], 'unwind': ['C18']}, clause_map=_tags(src),
               function='hello-world-listener.c:main(receive loop)', kind='example', config=config, includes=inc, timeout=1800,
               obj_bits=10, assumptions=MAIN_ASSUME)


VSS_GETTERS = {
    'udp': ['Avtp_Udp_GetEncapsulationSeqNo'], 'common': ['Avtp_CommonHeader_GetSubtype'],
    'tscf': ['Avtp_Tscf_GetStreamDataLength'], 'ntscf': ['Avtp_Ntscf_GetNtscfDataLength'],
    'acf_common': ['Avtp_AcfCommon_GetAcfMsgType'],
    'vss': ['Avtp_Vss_GetAcfMsgLength', 'Avtp_Vss_GetAddrMode', 'Avtp_Vss_GetDatatype'],
}

# Client-side contracts of the two VSS decoders exactly as the listener uses them (static-id path, float value).  They
# carry no ghosts, so their preconditions can be checked at the call sites inside the listener; each is itself ENFORCED on
# the real library function (obligations .../vss-decoder-as-used-*), so nothing about the decoders is assumed.
VSS_SAFE = r"""
#include "vp_spec.h"
#define VP_L_MODE(pdu) vp_get_bits((pdu)->header, 19, 2)
#define VP_L_PSZ(pdu) (VP_L_MODE(pdu) == 1u ? 4u : 2u + (unsigned)vp_be16((uint8_t *)(pdu) + 12))
void vp_safe_GetVssPath_static(Avtp_Vss_t* pdu, VssPath_t* val)
__CPROVER_requires(__CPROVER_r_ok(pdu, 16) && VP_L_MODE(pdu) == 1u && __CPROVER_w_ok(val, sizeof(VssPath_t)))
__CPROVER_assigns(val->vss_static_id_path)
__CPROVER_ensures(val->vss_static_id_path == vp_be32((uint8_t *)pdu + 12))
;
void vp_safe_GetVssData_float(Avtp_Vss_t* pdu, VssData_t* val)
__CPROVER_requires(__CPROVER_r_ok(pdu, 14) && VP_L_MODE(pdu) <= 1u && vp_get_bits(pdu->header, 24, 8) == 9u)
__CPROVER_requires(VP_L_PSZ(pdu) <= 2040u && __CPROVER_r_ok(pdu, 12u + VP_L_PSZ(pdu) + 4u) && __CPROVER_w_ok(val, sizeof(VssData_t)))
__CPROVER_assigns(__CPROVER_object_upto((uint8_t *)&val->data_float, 4))
;
Vss_Datatype_t vp_dt_GetDatatype(Avtp_Vss_t* pdu)
__CPROVER_requires(__CPROVER_r_ok(pdu, 12) && vp_get_bits(pdu->header, 24, 8) == 0x09u)
__CPROVER_assigns()
__CPROVER_ensures(__CPROVER_return_value == (Vss_Datatype_t)0x09)
;
"""


def vss_listener_jobs(model, tier, config='le'):
    import gen_contracts as G
    inc = [os.path.join(REPO, 'examples')]
    jobs = []
    own = {'post': ['C18'], 'safety': ['C18'], 'assigns': ['C18'], 'loop': ['C18'], 'assert': ['C18'], 'unwind': ['C18']}
    src = (G.PRELUDE + ENV3 + _gen(model, VSS_GETTERS) + '#include "avtp/acf/custom/Vss.h"\n' + VSS_SAFE +
           '#define main vp_vss_listener_main\n#include "acf-vss/acf-vss-listener.c"\n#undef main\n'
           'int vp_vss_listener_main(int argc, char *argv[])\n'
           '__CPROVER_assigns(vp_env_failed)\n'
           '__CPROVER_ensures(vp_env_failed == 1) /*TAG C18:listener-leaves-its-receive-loop-only-if-a-system-call-failed(any-datagram-is-survived)*/\n;\n'
           'void harness(void)\n{\n    use_udp = nondet_int(); vp_env_failed = 0;\n    char *argv[1] = { 0 };\n'
           '    int r = vp_vss_listener_main(1, argv);\n'
           '    VP_CANARY();\n}\n')
    repl = [g for v in VSS_GETTERS.values() for g in v] + ['recv', 'Avtp_Vss_GetVssPath/vp_safe_GetVssPath_static',
                                                            'Avtp_Vss_GetVssData/vp_safe_GetVssData_float']
    fb = _first_iteration_fallback('examples/acf-vss-listener/main-receive-loop', src, 'vp_vss_listener_main', repl, own, inc, config,
                                   'acf-vss-listener.c:main(receive loop)')
    jobs.append(Job('examples/acf-vss-listener/main-receive-loop', src, LIBSRC, enforce='vp_vss_listener_main', replace=repl, fallback=fb,
                    loop_contracts={'vp_vss_listener_main': [{'template': MAIN_LOOP, 'symbols': MAIN_SYMS, 'all_locals': True}]},
                    owners=own, clause_map=_tags(src), function='acf-vss-listener.c:main(receive loop)', kind='example', config=config,
                    includes=inc, timeout=1800, obj_bits=10, assumptions=MAIN_ASSUME))
    # the decoder contracts used above, enforced on the real library functions (buffer of symbolic size allocated by the harness:
    # the preconditions pin its size to exactly what the contract promises, so any access beyond it is a failed obligation)
    pre = (G.PRELUDE + _gen(model, {'vss': ['Avtp_Vss_GetAddrMode']}) + '#include "avtp/acf/custom/Vss.h"\n' + VSS_SAFE)
    hbody = ('void harness(void)\n{\n    size_t n = nondet_size(); __CPROVER_assume(n >= 12 && n <= 2100);\n'
             '    uint8_t *buf = malloc(n); __CPROVER_assume(buf != NULL);\n    %s v;\n    %s((Avtp_Vss_t *)buf, &v);\n    VP_CANARY();\n}\n')
    srcs = ['src/avtp/acf/custom/Vss.c', 'src/avtp/Utils.c']
    for nm, fn, cn, ty, repl2 in (
            ('static-id-path', 'Avtp_Vss_GetVssPath', 'vp_safe_GetVssPath_static', 'VssPath_t', ['Avtp_Vss_GetAddrMode']),
            ('float-value', 'Avtp_Vss_GetVssData', 'vp_safe_GetVssData_float', 'VssData_t', ['Avtp_Vss_GetAddrMode', 'Avtp_Vss_GetDatatype/vp_dt_GetDatatype'])):
        s2 = pre + hbody % (ty, fn)
        jobs.append(Job('examples/acf-vss-listener/vss-decoder-as-used-%s' % nm, s2, srcs, enforce='%s/%s' % (fn, cn), replace=repl2,
                        owners=own, clause_map=_tags(s2), function=fn, kind='example', config=config, timeout=900, obj_bits=10,
                        assumptions=['the contract instance of Avtp_Vss_GetDatatype at code 0x09 is enforced on the real getter by obligation Avtp_Vss_GetDatatype/at-0x09 (C07/C08)']))
    return jobs


def main_loop_jobs(model, tier, config='le'):
    return [hello_world_job(model, tier, config)] + vss_listener_jobs(model, tier, config)
