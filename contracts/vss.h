/*
 * Common part of the ACF-VSS codec contracts (C07, C08).  The datatype-specific
 * contracts of Avtp_Vss_SetVssData / GetVssData are generated per datatype code by
 * run/handjobs3.py from the encoding rules of acf-vss.md (big-endian integers, IEEE-754
 * bit patterns, 16-bit big-endian byte-length prefix, element order).
 *
 * Ghosts (nondeterministic globals no contract assigns):
 *   vp_mode  address mode found in the header (0 interop, 1 static id, 2/3 reserved)
 *   vp_plen  interop path length in bytes
 *   vp_dlen  byte length of a variable-length value
 *   vp_i     element / byte index;  vp_extra  trailing slack of the PDU buffer
 */
#ifndef VP_CONTRACTS_VSS_H
#define VP_CONTRACTS_VSS_H
#include "vp_env.h"
#include "vp_spec.h"
#include "avtp/acf/custom/Vss.h"

extern unsigned vp_mode, vp_plen, vp_dlen;
extern size_t vp_i, vp_j, vp_extra;

#define VP_VSS_H 12u
#define VP_PB(p) ((uint8_t *)(p))
/* on-wire size of the path region */
/* ternary-free (assigns-clause targets reject ?:) */
#define VP_VSS_PSZ (4u * (unsigned)(vp_mode == 1u) + (2u + vp_plen) * (unsigned)(vp_mode == 0u))
/* the header says what the ghosts say */
#define VP_VSS_MODE_IS(pdu) (vp_mode <= 3u && vp_get_bits((pdu)->header, 19, 2) == vp_mode)

/* ---- Avtp_Vss_CalcVssPathLength: interface contract (path lengths whose on-wire size
 * fits the 16-bit return type); the full-range variant is vp_full_CalcVssPathLength */
uint16_t Avtp_Vss_CalcVssPathLength(Avtp_Vss_t* pdu)
__CPROVER_requires(vp_plen <= 65533u)
__CPROVER_requires(__CPROVER_is_fresh(pdu, VP_VSS_H + ((vp_mode == 0u) ? 2u : 0u)))
__CPROVER_requires(VP_VSS_MODE_IS(pdu) && (vp_mode != 0u || vp_be16(VP_PB(pdu) + VP_VSS_H) == vp_plen))
__CPROVER_assigns()
__CPROVER_ensures(__CPROVER_return_value == VP_VSS_PSZ) /*TAG C08:reported-on-wire-path-size*/
;
uint16_t vp_full_CalcVssPathLength(Avtp_Vss_t* pdu)
__CPROVER_requires(vp_plen <= 65535u)
__CPROVER_requires(__CPROVER_is_fresh(pdu, VP_VSS_H + ((vp_mode == 0u) ? 2u : 0u)))
__CPROVER_requires(VP_VSS_MODE_IS(pdu) && (vp_mode != 0u || vp_be16(VP_PB(pdu) + VP_VSS_H) == vp_plen))
__CPROVER_assigns()
__CPROVER_ensures((unsigned)__CPROVER_return_value == VP_VSS_PSZ) /*TAG C08:reported-on-wire-path-size-full-range*/
;

/* ---- Avtp_Vss_SetVssPath (vp_plen = length of the path being written, 0..65535) */
void Avtp_Vss_SetVssPath(Avtp_Vss_t* pdu, VssPath_t* val)
__CPROVER_requires(vp_plen <= 65535u && vp_extra <= 8)
__CPROVER_requires(__CPROVER_is_fresh(val, sizeof(VssPath_t)))
__CPROVER_requires(vp_mode != 0u || (val->vss_interop_path.path_length == vp_plen && __CPROVER_is_fresh(val->vss_interop_path.path, vp_plen)))
__CPROVER_requires(__CPROVER_is_fresh(pdu, VP_VSS_H + VP_VSS_PSZ + vp_extra))
__CPROVER_requires(VP_VSS_MODE_IS(pdu))
__CPROVER_assigns(vp_mode == 1u : __CPROVER_object_upto(VP_PB(pdu) + VP_VSS_H, 4u);
                  vp_mode == 0u : __CPROVER_object_upto(VP_PB(pdu) + VP_VSS_H, 2u + vp_plen))
__CPROVER_ensures(vp_mode == 1u ==> vp_be32(VP_PB(pdu) + VP_VSS_H) == val->vss_static_id_path) /*TAG C07:static-id-path-big-endian-right-after-header*/
__CPROVER_ensures(vp_mode == 0u ==> vp_be16(VP_PB(pdu) + VP_VSS_H) == vp_plen) /*TAG C07:interop-path-16-bit-big-endian-length-prefix*/
__CPROVER_ensures((vp_mode == 0u && vp_i < vp_plen) ==> VP_PB(pdu)[VP_VSS_H + 2u + vp_i] == (uint8_t)val->vss_interop_path.path[vp_i]) /*TAG C07:interop-path-bytes-verbatim*/
;

/* ---- Avtp_Vss_GetVssPath on a well-formed message of exactly header + path bytes */
void Avtp_Vss_GetVssPath(Avtp_Vss_t* pdu, VssPath_t* val)
__CPROVER_requires(vp_plen <= 65535u)
__CPROVER_requires(__CPROVER_is_fresh(pdu, VP_VSS_H + VP_VSS_PSZ))
__CPROVER_requires(VP_VSS_MODE_IS(pdu) && (vp_mode != 0u || vp_be16(VP_PB(pdu) + VP_VSS_H) == vp_plen))
__CPROVER_requires(__CPROVER_is_fresh(val, sizeof(VssPath_t)))
__CPROVER_requires(vp_mode != 0u || __CPROVER_is_fresh(val->vss_interop_path.path, vp_plen))
__CPROVER_assigns(vp_mode == 1u : val->vss_static_id_path;
                  vp_mode == 0u : val->vss_interop_path.path_length;
                  vp_mode == 0u : __CPROVER_object_upto(val->vss_interop_path.path, vp_plen))
__CPROVER_ensures(vp_mode == 1u ==> val->vss_static_id_path == vp_be32(VP_PB(pdu) + VP_VSS_H)) /*TAG C08:static-id-decoded*/
__CPROVER_ensures(vp_mode == 0u ==> val->vss_interop_path.path_length == vp_plen) /*TAG C08:interop-path-length-decoded*/
__CPROVER_ensures((vp_mode == 0u && vp_i < vp_plen) ==> (uint8_t)val->vss_interop_path.path[vp_i] == VP_PB(pdu)[VP_VSS_H + 2u + vp_i]) /*TAG C08:interop-path-bytes-decoded*/
;

#endif
