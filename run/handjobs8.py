#!/usr/bin/env python3
"""C18, CRF example listener (examples/crf/crf-listener.c): both receive functions
(aaf_listener_recv_pdu - listener mode, aaf_talker_recv_pdu - talker mode) and the media-clock
queue they drive.  The example file is #included unmodified (main renamed).

Structure of the argument
  * the timestamp queue (a STAILQ of malloc'ed entries) is abstracted by VP_QUEUE_OK: the tail pointer
    designates a writable link field and the head is NULL or a live entry;
  * mclk_enqueue_ts / mclk_dequeue_ts / get_next_mclk_timestamp / mclk_lookup / recover_mclk are each
    ENFORCED against a contract over that abstraction and REPLACED by it in their callers;
  * mclk_lookup's search loop is closed by a loop contract with a variant (bounded time);
  * the two receive functions are enforced with the validators (is_valid_crf_pdu, is_valid_aaf_pdu,
    is_ts_aligned, handle_*) INLINED and the library wrappers / queue operations / environment replaced.

What is bounded: mclk_dequeue_ts is enforced on concrete queues of depth 1 and 2 (the link structure
behind the head cannot be stated without recursion); recover_mclk's constant loop (160 iterations)
is unwound completely.  What is assumed: the contract used at the call sites of the dequeue omits
the frees clause (the freed entry is unreachable for callers)."""
import os
import re

from vplib import Job, REPO

# example obligations link the whole library (precompiled once per run): a library function the example starts to call is
# then inlined with its real body instead of being an undefined function
LIBSRC = ['src/avtp/Utils.c']
from handjobs7 import ENV3

CRF_ENV = r'''
#include <sys/timerfd.h>
#include <time.h>
int timerfd_settime(int fd, int flags, const struct itimerspec *nv, struct itimerspec *ov)
__CPROVER_requires(__CPROVER_r_ok(nv, sizeof(struct itimerspec)) && ov == NULL)
__CPROVER_assigns(vp_env_failed)
__CPROVER_ensures(__CPROVER_return_value == 0 || __CPROVER_return_value == -1)
__CPROVER_ensures(__CPROVER_return_value < 0 ==> vp_env_failed == 1)
__CPROVER_ensures(__CPROVER_return_value >= 0 ==> vp_env_failed == __CPROVER_old(vp_env_failed))
;
void *malloc(size_t n)
__CPROVER_assigns(vp_env_failed)
__CPROVER_ensures(__CPROVER_return_value == NULL ==> vp_env_failed == 1)
__CPROVER_ensures(__CPROVER_return_value != NULL ==> (__CPROVER_is_fresh(__CPROVER_return_value, n) && vp_env_failed == __CPROVER_old(vp_env_failed)))
;
extern const void *__CPROVER_alloca_object;
'''

CONTRACTS = r'''
#define VP_Q mclk_timestamps
#define VP_ENTRY_SZ sizeof(struct media_clock_entry)
/* abstraction of the timestamp queue as a PRECONDITION (and loop invariant): writable tail link, head NULL or a live entry */
#define VP_QUEUE_OK ((VP_Q.stqh_first == NULL && VP_Q.stqh_last == &VP_Q.stqh_first) || \
                     (VP_Q.stqh_first != NULL && __CPROVER_rw_ok(VP_Q.stqh_first, VP_ENTRY_SZ) && \
                      (VP_Q.stqh_last == &VP_Q.stqh_first->mclk_entries.stqe_next || \
                       (__CPROVER_rw_ok(VP_Q.stqh_last, VP_ENTRY_SZ) && !__CPROVER_same_object(VP_Q.stqh_last, VP_Q.stqh_first)))))
/* the same abstraction as a POSTCONDITION: in a replaced contract a pointer becomes valid by is_fresh, not by w_ok.  Empty queue,
 * or a live head whose own link is the tail, or a live head and a tail link in another live entry (its first member). */
#define VP_QUEUE_POST ((VP_Q.stqh_first == NULL && VP_Q.stqh_last == &VP_Q.stqh_first) || \
                       (VP_Q.stqh_first != NULL && __CPROVER_is_fresh(VP_Q.stqh_first, VP_ENTRY_SZ) && \
                        (VP_Q.stqh_last == &VP_Q.stqh_first->mclk_entries.stqe_next || __CPROVER_is_fresh(VP_Q.stqh_last, VP_ENTRY_SZ))))
/* ---- the two queue operations, ENFORCED on the real functions (real malloc contract / real free) */
static int mclk_enqueue_ts(uint64_t ts)
__CPROVER_requires(VP_QUEUE_OK)
__CPROVER_assigns(__CPROVER_object_whole(&VP_Q); *VP_Q.stqh_last; vp_env_failed)
__CPROVER_ensures(__CPROVER_return_value == 0 || (__CPROVER_return_value == -1 && vp_env_failed == 1)) /*TAG C18:helper-fails-only-if-the-environment-failed*/
__CPROVER_ensures(__CPROVER_return_value == 0 ==> (VP_Q.stqh_first != NULL && vp_env_failed == __CPROVER_old(vp_env_failed)))
__CPROVER_ensures(VP_QUEUE_POST) /*TAG C18:queue-stays-well-formed-for-the-next-datagram*/
;
static uint64_t mclk_dequeue_ts(void)
__CPROVER_requires(VP_QUEUE_OK && VP_Q.stqh_first != NULL)
__CPROVER_requires(VP_Q.stqh_first->mclk_entries.stqe_next == NULL || __CPROVER_rw_ok(VP_Q.stqh_first->mclk_entries.stqe_next, VP_ENTRY_SZ))
__CPROVER_assigns(__CPROVER_object_whole(&VP_Q))
__CPROVER_frees(VP_Q.stqh_first)
__CPROVER_ensures(VP_QUEUE_POST) /*TAG C18:queue-stays-well-formed-for-the-next-datagram*/
;
/* ---- the same two contracts as USED at the call sites.  The entries are owned by the queue: clients see only the queue head
 * structure, so the write into the old tail entry's link, the link behind the head and the release of the head entry are not
 * part of the client-side frame. */
static int vp_use_mclk_enqueue_ts(uint64_t ts)
__CPROVER_requires(VP_QUEUE_OK)
__CPROVER_assigns(__CPROVER_object_whole(&VP_Q); vp_env_failed)
__CPROVER_ensures(__CPROVER_return_value == 0 || (__CPROVER_return_value == -1 && vp_env_failed == 1))
__CPROVER_ensures(__CPROVER_return_value == 0 ==> (VP_Q.stqh_first != NULL && vp_env_failed == __CPROVER_old(vp_env_failed)))
__CPROVER_ensures(VP_QUEUE_POST)
;
static uint64_t vp_use_mclk_dequeue_ts(void)
__CPROVER_requires(VP_QUEUE_OK && VP_Q.stqh_first != NULL)
__CPROVER_assigns(__CPROVER_object_whole(&VP_Q))
__CPROVER_ensures(VP_QUEUE_POST)
;
/* ---- as used INSIDE the two loops (mclk_lookup, recover_mclk).  After a loop havoc CBMC cannot re-establish that a pointer is
 * valid (assume(rw_ok(p)) does not give p a target), so inside these loops the queue is framed out: the loop bodies call only these
 * two operations, whose enforced contracts above preserve the queue abstraction (VP_QUEUE_OK -> VP_QUEUE_POST); that it therefore
 * holds after any number of iterations is the usual induction, NOT mechanised (listed as an assumption). */
static uint64_t vp_inloop_get_next_mclk_timestamp(void)
__CPROVER_requires(VP_QUEUE_OK)
__CPROVER_assigns(prev_mclk_timestamp; need_mclk_lookup)
;
static int vp_inloop_mclk_enqueue_ts(uint64_t ts)
__CPROVER_requires(VP_QUEUE_OK)
__CPROVER_assigns(vp_env_failed)
__CPROVER_ensures(__CPROVER_return_value == 0 || (__CPROVER_return_value == -1 && vp_env_failed == 1))
__CPROVER_ensures(__CPROVER_return_value == 0 ==> vp_env_failed == __CPROVER_old(vp_env_failed))
;
static uint64_t get_next_mclk_timestamp(void)
__CPROVER_requires(VP_QUEUE_OK)
__CPROVER_assigns(__CPROVER_object_whole(&VP_Q); prev_mclk_timestamp; need_mclk_lookup)
__CPROVER_ensures(VP_QUEUE_POST) /*TAG C18:queue-stays-well-formed-for-the-next-datagram*/
;
static uint64_t mclk_lookup(uint32_t avtp_time)
__CPROVER_requires(VP_QUEUE_OK)
__CPROVER_assigns(__CPROVER_object_whole(&VP_Q); prev_mclk_timestamp; need_mclk_lookup)
__CPROVER_ensures(VP_QUEUE_POST) /*TAG C18:queue-stays-well-formed-for-the-next-datagram*/
;
static int recover_mclk(struct avtp_crf_pdu *pdu)
__CPROVER_requires(VP_QUEUE_OK && __CPROVER_r_ok(pdu, sizeof(struct avtp_crf_pdu) + 8))
__CPROVER_assigns(__CPROVER_object_whole(&VP_Q); vp_env_failed)
__CPROVER_ensures(__CPROVER_return_value == 0 || (__CPROVER_return_value < 0 && vp_env_failed == 1)) /*TAG C18:helper-fails-only-if-the-environment-failed*/
__CPROVER_ensures(__CPROVER_return_value == 0 ==> vp_env_failed == __CPROVER_old(vp_env_failed))
__CPROVER_ensures(VP_QUEUE_POST) /*TAG C18:queue-stays-well-formed-for-the-next-datagram*/
;
static int aaf_listener_recv_pdu(int fd)
__CPROVER_requires(VP_QUEUE_OK)
__CPROVER_assigns(__CPROVER_object_whole(&VP_Q); vp_env_failed; __CPROVER_alloca_object;
                  crf_seq_num; aaf_seq_num; prev_state; need_mclk_lookup; prev_mclk_timestamp)
__CPROVER_ensures(__CPROVER_return_value >= 0 || vp_env_failed == 1) /*TAG C18:listener-gives-up-only-if-a-system-call-failed(any-datagram-is-survived)*/
__CPROVER_ensures(VP_QUEUE_POST) /*TAG C18:queue-stays-well-formed-for-the-next-datagram*/
;
static int aaf_talker_recv_pdu(int fd_sk, int fd_timer)
__CPROVER_requires(VP_QUEUE_OK)
__CPROVER_assigns(__CPROVER_object_whole(&VP_Q); vp_env_failed; __CPROVER_alloca_object;
                  crf_seq_num; first_aaf_pdu)
__CPROVER_ensures(__CPROVER_return_value >= 0 || vp_env_failed == 1) /*TAG C18:listener-gives-up-only-if-a-system-call-failed(any-datagram-is-survived)*/
__CPROVER_ensures(VP_QUEUE_POST) /*TAG C18:queue-stays-well-formed-for-the-next-datagram*/
;
'''

VP_MAXTRIES = '(1000000000ULL / (1000000000ULL * 6 / 48000))'
LOOKUP_LOOP = ('INV: tries <= %s\nDEC: %s + 1 - tries\nASG: mclk_timestamp, tries, prev_mclk_timestamp, need_mclk_lookup\n' % (VP_MAXTRIES, VP_MAXTRIES))
LOOKUP_SYMS = ['tries', 'mclk_timestamp', '::prev_mclk_timestamp', '::need_mclk_lookup']

RECOVER_LOOP = 'INV: 0 <= idx && idx <= 160 && vp_env_failed == __CPROVER_loop_entry(vp_env_failed)\nDEC: 160 - idx\nASG: idx, ts_mclk, res, vp_env_failed\n'
RECOVER_SYMS = ['idx', 'ts_mclk', 'res', '::vp_env_failed']

CRF_ASSUME = [
    'trusted environment contracts: recv, timerfd_settime, malloc (ghost vp_env_failed is set exactly when one of them reports failure); perror/fprintf/close are no-op stubs',
    'the timestamp queue is abstracted by VP_QUEUE_OK (writable tail link; head NULL or a live entry); the contract used at the call sites of mclk_dequeue_ts '
    'omits the frees clause and takes the link behind the head as part of the queue\'s own invariant',
    'inside the loops of mclk_lookup and recover_mclk the queue is framed out (CBMC cannot re-establish pointer validity after a loop havoc): that the queue '
    'abstraction, which every single queue operation is proved to preserve, still holds after any number of iterations is the usual induction and is not mechanised',
    'only the two receive functions and the queue operations are under contract; aaf_talker_tx_timeout(), the poll loops, main() and socket set-up are not',
]


def _tags(tu_text):
    cm = {}
    for i, l in enumerate(tu_text.split('\n'), 1):
        m = re.search(r'/\*TAG\s+(\S+?)\s*\*/', l)
        if m:
            cm[i] = m.group(1)
    return cm


def crf_listener_jobs(model, tier, config='le'):
    import gen_contracts as G
    inc = [os.path.join(REPO, 'examples')]
    lg = model['spec']['legacy']
    legacy = (G.legacy_contracts(model, model['fmts']['crf'], lg['crf']).text() + G.legacy_contracts(model, model['fmts']['pcm'], lg['pcm']).text() +
              G.legacy_contracts(model, model['fmts']['common'], lg['common']).text())
    pre = (G.PRELUDE + '#include "avtp/Crf.h"\n#include "avtp/aaf/Pcm.h"\n#include "avtp/CommonHeader.h"\n' + ENV3 + CRF_ENV + legacy +
           '#define main vp_crf_listener_main\n#include "crf/crf-listener.c"\n#undef main\n' + CONTRACTS)
    own = {'post': ['C18'], 'safety': ['C18'], 'assigns': ['C18'], 'loop': ['C18'], 'assert': ['C18'], 'unwind': ['C18']}
    hv = ('    vp_env_failed = 0; crf_seq_num = nondet_u8(); aaf_seq_num = nondet_u8(); prev_state = nondet_bool(); first_aaf_pdu = nondet_bool();\n'
          '    need_mclk_lookup = nondet_bool(); prev_mclk_timestamp = nondet_u64(); rounded_mtt = nondet_u64(); mode = nondet_int();\n'
          '    __CPROVER_assume(mode == MODE_TALKER || mode == MODE_LISTENER);\n')
    # abstract queue: empty, or a head entry with a tail link somewhere (in the head itself or in another live entry)
    qs = ('    STAILQ_INIT(&mclk_timestamps);\n'
          '    if (nondet_bool()) { struct media_clock_entry *e0 = malloc(sizeof(*e0)); __CPROVER_assume(e0 != NULL); e0->mclk_entries.stqe_next = NULL;\n'
          '        mclk_timestamps.stqh_first = e0; mclk_timestamps.stqh_last = &e0->mclk_entries.stqe_next;\n'
          '        if (nondet_bool()) { struct media_clock_entry *e1 = malloc(sizeof(*e1)); __CPROVER_assume(e1 != NULL); e1->mclk_entries.stqe_next = NULL;\n'
          '            e0->mclk_entries.stqe_next = e1; mclk_timestamps.stqh_last = &e1->mclk_entries.stqe_next; } }\n')
    jobs = []

    def mk(name, enforce, replace, call, bounded=None, unwind=None, loops=None, timeout=1800, extra=(), cbmc=(), sa='', fallback=None, no_ua=False, name_suffix=''):
        src = pre + sa + 'void harness(void)\n{\n' + hv + qs + '    ' + call + '\n    VP_CANARY();\n}\n'
        return Job('examples/crf-listener/' + name + name_suffix, src, LIBSRC, enforce=enforce, fallback=fallback, no_unwinding_assertions=no_ua, replace=replace, owners=own, clause_map=_tags(src),
                   function='crf-listener.c:' + enforce.split('/')[0], kind='example', config=config, includes=inc, timeout=timeout,
                   obj_bits=10, unwind=unwind, bounded=bounded, loop_contracts=loops, assumptions=CRF_ASSUME + list(extra), extra_cbmc=list(cbmc))

    legacy_fns = ['avtp_pdu_get', 'avtp_crf_pdu_get', 'avtp_aaf_pdu_get']
    jobs.append(mk('aaf_listener_recv_pdu', 'aaf_listener_recv_pdu',
                   ['recv', 'recover_mclk', 'mclk_lookup', 'get_next_mclk_timestamp'] + legacy_fns,
                   'aaf_listener_recv_pdu(nondet_int());'))
    jobs.append(mk('aaf_talker_recv_pdu', 'aaf_talker_recv_pdu',
                   ['recv', 'recover_mclk', 'timerfd_settime', 'mclk_dequeue_ts/vp_use_mclk_dequeue_ts'] + legacy_fns,
                   'aaf_talker_recv_pdu(nondet_int(), nondet_int());'))
    # fallbacks for the two loop obligations when their loop contract cannot be attached (renamed counter, restructured loop):
    # recover_mclk - the constant loop is unwound completely (162) under an unwinding assertion;
    # mclk_lookup - a loop contract that names no local (invariant true, frame = all locals): memory safety only, the bound on the
    #               search (termination) is NOT checked in the fallback
    fb_recover = mk('recover_mclk', 'recover_mclk', ['mclk_enqueue_ts/vp_inloop_mclk_enqueue_ts'],
                    'struct avtp_crf_pdu *p = malloc(sizeof(struct avtp_crf_pdu) + 8); __CPROVER_assume(p != NULL); recover_mclk(p);',
                    unwind={'*repo*': 162}, timeout=1800, name_suffix='~unwinding-fallback',
                    bounded='FALLBACK (loop contract not attachable): the constant loop over MCLKLIST_TS_PER_CRF is unwound 162 times under an unwinding assertion')
    fb_lookup = mk('mclk_lookup', 'mclk_lookup', ['get_next_mclk_timestamp/vp_inloop_get_next_mclk_timestamp'], 'mclk_lookup(nondet_u32());',
                   loops={'mclk_lookup': [{'template': 'INV: 1 == 1\nASG: prev_mclk_timestamp, need_mclk_lookup\n',
                                           'symbols': ['::prev_mclk_timestamp', '::need_mclk_lookup'], 'all_locals': True, 'loop_rank': 0}]},
                   name_suffix='~name-free-fallback',
                   bounded='FALLBACK (loop contract not attachable): loop contract with invariant true and no variant - memory safety of the search loop only, '
                           'its termination bound is not checked')
    jobs.append(mk('recover_mclk', 'recover_mclk', ['mclk_enqueue_ts/vp_inloop_mclk_enqueue_ts'],
                   'struct avtp_crf_pdu *p = malloc(sizeof(struct avtp_crf_pdu) + 8); __CPROVER_assume(p != NULL); recover_mclk(p);', fallback=fb_recover,
                   loops={'recover_mclk': [{'template': RECOVER_LOOP, 'symbols': RECOVER_SYMS}]},
                   sa='/* the constant the loop contract was written against */\n_Static_assert(MCLKLIST_TS_PER_CRF == 160, "CRF listener constant");\n'))
    jobs.append(mk('mclk_enqueue_ts', 'mclk_enqueue_ts', ['malloc'], 'mclk_enqueue_ts(nondet_u64());'))
    jobs.append(mk('mclk_dequeue_ts', 'mclk_dequeue_ts', [],
                   '__CPROVER_assume(mclk_timestamps.stqh_first != NULL); mclk_dequeue_ts();',
                   bounded='BOUNDED: mclk_dequeue_ts is enforced on concrete queues of depth 1 and 2 built by the harness (the link structure behind the head '
                           'cannot be stated without recursion); no loop is involved'))
    jobs.append(mk('get_next_mclk_timestamp', 'get_next_mclk_timestamp', ['mclk_dequeue_ts/vp_use_mclk_dequeue_ts'], 'get_next_mclk_timestamp();'))
    jobs.append(mk('mclk_lookup', 'mclk_lookup', ['get_next_mclk_timestamp/vp_inloop_get_next_mclk_timestamp'], 'mclk_lookup(nondet_u32());', fallback=fb_lookup,
                   loops={'mclk_lookup': [{'template': LOOKUP_LOOP, 'symbols': LOOKUP_SYMS}]},
                   sa='/* the constant the loop contract was written against */\n_Static_assert(MCLK_LOOKUP_MAX_TRIES == 8000, "CRF listener constant");\n'))
    return jobs
