/* Meta-lemmas about the reference semantics itself.  Pure bit-vector facts, loop-free,
 * full-domain symbolic inputs: each is a complete proof by CBMC (no contracts involved). */
#include <stdlib.h>
#include "vp_env.h"
#include "vp_spec.h"

/* bit-level reference: bit b of a buffer after (v mod 2^n) was written MSB-first to
 * [s, s+n); `oldbit` is its previous value */
static inline unsigned vp_put_bit(unsigned oldbit, uint32_t b, uint32_t s, uint32_t n, uint64_t v)
{
    if (n <= 64 && b >= s && b < s + n)
        return (unsigned)((v >> (n - 1u - (b - s))) & 1u);
    return oldbit;
}

/* L1: vp_get_bits IS "bit k of the result (MSB first) is buffer bit s+k, nothing above
 * bit n" - the property's words - and it reads only bytes s/8..(s+n-1)/8 (exact-extent
 * buffer + pointer checks); L1b: it is invariant under whole-byte translation, so the
 * statement holds at every start bit. */
void lemma_get_bits_meaning(void)
{
    uint32_t s = nondet_u32(), n = nondet_u32(), k = nondet_u32();
    __CPROVER_assume(s <= 7 && n >= 1 && n <= 64 && k < n);
    uint32_t lb = (s + n - 1) >> 3;
    uint8_t *obj = malloc(lb + 1);               /* exactly the touched bytes */
    __CPROVER_assume(obj != NULL);
    uint64_t r = vp_get_bits(obj, s, n);
    __CPROVER_assert(((r >> (n - 1 - k)) & 1u) == vp_bit(obj, s + k), "L1: result bit n-1-k equals buffer bit s+k");
    __CPROVER_assert(n == 64 || (r >> n) == 0, "L1: no bit above the field width is set");
    VP_CANARY();
}
void lemma_get_bits_translation(void)
{
    uint32_t s = nondet_u32(), n = nondet_u32();
    __CPROVER_assume(s <= 255u * 32u + 31u && n >= 1 && n <= 64);
    uint32_t lb = (s + n - 1) >> 3;
    uint8_t *obj = malloc(lb + 1);
    __CPROVER_assume(obj != NULL);
    __CPROVER_assert(vp_get_bits(obj, s, n) == vp_get_bits(obj + (s >> 3), s & 7u, n), "L1b: translation by whole bytes");
    VP_CANARY();
}

/* Lc: vp_put_byte IS the bit-level reference on each of its 8 bits. */
void lemma_put_byte_bits(void)
{
    uint32_t s = nondet_u32(), n = nondet_u32(), k = nondet_u32(), j = nondet_u32();
    uint64_t v = nondet_u64();
    uint8_t o = nondet_u8();
    __CPROVER_assume(s <= 255u * 32u + 31u && n <= 64 && k <= 1100 && j < 8);
    uint8_t r = vp_put_byte(o, k, s, n, v);
    __CPROVER_assert(((unsigned)(r >> (7u - j)) & 1u) == vp_put_bit((unsigned)(o >> (7u - j)) & 1u, 8u * k + j, s, n, v),
                     "Lc: vp_put_byte == bit-level write on every bit");
    VP_CANARY();
}

/* L2: the quadlet-window form used by K_get equals the byte-form oracle. */
void lemma_window_get(void)
{
    uint8_t q = nondet_u8(), off = nondet_u8(), bits = nondet_u8();
    __CPROVER_assume(off <= 31 && bits >= 1 && bits <= 64);
    unsigned nq = VP_NQ(off, bits);
    uint8_t *p = malloc(4u * (q + nq));
    __CPROVER_assume(p != NULL);
    uint64_t a = VP_WGET(VP_WINDOW(p, q, nq), off, bits);
    uint64_t b = vp_get_bits(p, 32u * q + off, bits);
    __CPROVER_assert(a == b, "L2: window read == byte-form read");
    VP_CANARY();
}

/* L3: the quadlet-window form used by K_set equals the byte-form oracle, byte by byte. */
void lemma_window_put(void)
{
    uint8_t q = nondet_u8(), off = nondet_u8(), bits = nondet_u8();
    uint64_t v = nondet_u64();
    unsigned i = nondet_uint();
    __CPROVER_assume(off <= 31 && bits >= 1 && bits <= 64);
    unsigned nq = VP_NQ(off, bits);
    __CPROVER_assume(i < 4u * nq);
    uint8_t *p = malloc(4u * (q + nq));
    __CPROVER_assume(p != NULL);
    vp_u128 wold = VP_WINDOW(p, q, nq);
    vp_u128 wnew = VP_WPUT(wold, off, bits, v);
    __CPROVER_assert(VP_WBYTE(wnew, i) == vp_put_byte(p[4u * q + i], 4u * q + i, 32u * q + off, bits, v),
                     "L3: window write == byte-form write");
    VP_CANARY();
}

/* L4..L10: the algebra that makes a header a record of independent fields (C05), on
 * the bit-level reference (tied to vp_put_byte by Lc and to vp_get_bits by L1). */
void lemma_record_algebra(void)
{
    uint32_t s1 = nondet_u32(), n1 = nondet_u32(), s2 = nondet_u32(), n2 = nondet_u32(), b = nondet_u32(), k = nondet_u32();
    uint64_t v1 = nondet_u64(), v2 = nondet_u64();
    unsigned o = nondet_uint() & 1u;
    __CPROVER_assume(s1 <= 8191 && n1 <= 64 && s2 <= 8191 && n2 <= 64 && b <= 8300);
    /* read after write: field bit k (MSB first) of the written range holds bit n-1-k of v */
    if (k < n1)
        __CPROVER_assert(vp_put_bit(o, s1 + k, s1, n1, v1) == (unsigned)(((v1 & VP_MASK64(n1)) >> (n1 - 1 - k)) & 1u),
                         "L4: read after write returns v mod 2^n");
    if (b < s1 || b >= s1 + n1)
        __CPROVER_assert(vp_put_bit(o, b, s1, n1, v1) == o, "L5: a write leaves every bit outside the field unchanged");
    if (s1 + n1 <= s2 || s2 + n2 <= s1)
        __CPROVER_assert(vp_put_bit(vp_put_bit(o, b, s1, n1, v1), b, s2, n2, v2) ==
                         vp_put_bit(vp_put_bit(o, b, s2, n2, v2), b, s1, n1, v1), "L6: writes to disjoint fields commute");
    __CPROVER_assert(vp_put_bit(vp_put_bit(o, b, s1, n1, v1), b, s1, n1, v1) == vp_put_bit(o, b, s1, n1, v1),
                     "L7: repeating a write changes nothing");
    __CPROVER_assert(vp_put_bit(vp_put_bit(o, b, s1, n1, v1), b, s1, n1, v2) == vp_put_bit(o, b, s1, n1, v2),
                     "L8: the last value written wins");
    __CPROVER_assert(vp_put_bit(o, b, s1, n1, v1) == vp_put_bit(o, b, s1, n1, v1 & VP_MASK64(n1)),
                     "L10: only v mod 2^n matters");
    VP_CANARY();
}
